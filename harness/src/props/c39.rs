//! C39 The competition leaderboard is the top traders by volume (real instructions in svm-lite).

use crate::engine::{pick, Ctx, Rec};
use crate::svm::{self, Acct, Svm, Sysvars};
use anchor_lang::solana_program::{instruction::Instruction, pubkey::Pubkey, system_program};
use anchor_lang::{AccountDeserialize, Discriminator, InstructionData, ToAccountMetas};
use bytemuck::Zeroable;
use gmsol_competition::states::{Competition, Participant, COMPETITION_SEED, PARTICIPANT_SEED};
use gmsol_programs::gmsol_store::accounts::TradeData;
use proptest::prelude::*;
use serde::{Deserialize, Serialize};
use std::collections::BTreeMap;

#[derive(Debug, Clone, Serialize, Deserialize)]
pub struct Trade {
    pub trader: u16,
    pub before: u128,
    pub after: u128,
    pub dt: u32,
    pub success: bool,
}

#[derive(Debug, Clone, Serialize, Deserialize)]
pub struct Case {
    pub duration: u32,
    pub threshold: u128,
    pub extension: u32,
    pub cap: u32,
    pub only_increase: bool,
    pub merge_window: u32,
    pub trades: Vec<Trade>,
}

const TRADERS: usize = 8;
const UNIT: u128 = 100_000_000_000_000_000_000;

fn case() -> impl Strategy<Value = Case> {
    let vol = || prop_oneof![4 => 0u128..=(5_000 * UNIT), 1 => Just(0u128), 1 => 0u128..=1000, 1 => (u128::MAX / 4)..=u128::MAX];
    let trade = (any::<u16>(), vol(), vol(), prop_oneof![4 => 0u32..=120, 1 => 0u32..=5000], prop_oneof![9 => Just(true), 1 => Just(false)])
        .prop_map(|(trader, before, after, dt, success)| Trade { trader, before, after, dt, success });
    (
        600u32..=20_000,
        prop_oneof![2 => Just(1_000 * UNIT), 1 => 1u128..=(10_000 * UNIT)],
        1u32..=3600,
        0u32..=7200,
        any::<bool>(),
        1u32..=600,
        proptest::collection::vec(trade, 1..40),
    )
        .prop_map(|(duration, threshold, extension, cap_extra, only_increase, merge_window, trades)| Case { duration, threshold, extension, cap: extension + cap_extra, only_increase, merge_window, trades })
}

fn trader(i: usize) -> Pubkey {
    svm::key_of(&format!("c39-trader-{i}"))
}

fn check(c: &Case, rec: &mut Rec) -> Result<(), String> {
    let mut vm = Svm::new();
    let payer = svm::key_of("c39-payer");
    vm.fund(payer, 1_000_000_000_000);
    let t0 = 1_700_000_000i64;
    let mut sys = Sysvars { unix_timestamp: t0, ..Default::default() };
    svm::set_sysvars(sys);
    let pid = gmsol_competition::ID;
    let start = t0 + 10;
    let end = start + c.duration as i64;
    let (competition, _) = Pubkey::find_program_address(&[COMPETITION_SEED, payer.as_ref(), &start.to_le_bytes()], &pid);
    let ix = Instruction {
        program_id: pid,
        accounts: gmsol_competition::accounts::InitializeCompetition { payer, competition, system_program: system_program::ID }.to_account_metas(None),
        data: gmsol_competition::instruction::InitializeCompetition {
            start_time: start,
            end_time: end,
            volume_threshold: c.threshold,
            extension_duration: c.extension as i64,
            extension_cap: c.cap as i64,
            only_count_increase: c.only_increase,
            volume_merge_window: c.merge_window as i64,
        }
        .data(),
    };
    vm.process(&ix).map_err(|e| format!("initialize_competition failed: {e:?}"))?;
    let mut participants = vec![];
    for i in 0..TRADERS {
        let (participant, _) = Pubkey::find_program_address(&[PARTICIPANT_SEED, competition.as_ref(), trader(i).as_ref()], &pid);
        let ix = Instruction {
            program_id: pid,
            accounts: gmsol_competition::accounts::CreateParticipantIdempotent { payer, competition, participant, trader: trader(i), system_program: system_program::ID }.to_account_metas(None),
            data: gmsol_competition::instruction::CreateParticipantIdempotent {}.data(),
        };
        vm.process(&ix).map_err(|e| format!("create_participant failed: {e:?}"))?;
        participants.push(participant);
    }
    let (authority, authority_bump) = Pubkey::find_program_address(&[gmsol_callback::CALLBACK_AUTHORITY_SEED], &gmsol_store::ID);
    let trade_event = svm::key_of("c39-trade-event");
    sys.unix_timestamp = start;
    svm::set_sysvars(sys);

    // model
    let mut volumes: BTreeMap<usize, u128> = BTreeMap::new();
    let mut reranked = false;
    let read_comp = |vm: &Svm| -> Result<Competition, String> {
        Competition::try_deserialize(&mut &vm.data(&competition)[..]).map_err(|e| format!("competition account unreadable: {e}"))
    };
    for (step, t) in c.trades.iter().enumerate() {
        sys.unix_timestamp += t.dt as i64;
        svm::set_sysvars(sys);
        let now = sys.unix_timestamp;
        let ti = pick(t.trader, TRADERS);
        let mut td = TradeData::zeroed();
        td.user = trader(ti);
        td.before.size_in_usd = t.before;
        td.after.size_in_usd = t.after;
        let mut data = TradeData::DISCRIMINATOR.to_vec();
        data.extend_from_slice(bytemuck::bytes_of(&td));
        vm.set_account(trade_event, Acct { lamports: 1_000_000, data, owner: gmsol_store::ID, executable: false });
        let before = read_comp(&vm)?;
        let ongoing = now >= before.start_time && now <= before.end_time;
        let mut metas = gmsol_competition::accounts::OnExecuted {
            authority,
            competition,
            participant: participants[ti],
            trader: trader(ti),
            action: svm::key_of("c39-action"),
            position: svm::key_of("c39-position"),
            trade_event: Some(trade_event),
        }
        .to_account_metas(None);
        metas[0].is_signer = true;
        let ix = Instruction {
            program_id: pid,
            accounts: metas,
            data: gmsol_competition::instruction::OnExecuted { authority_bump, action_kind: gmsol_callback::interface::ActionKind::Order as u8, callback_version: 0, success: t.success, extra_account_count: 2 }.data(),
        };
        vm.process(&ix).map_err(|e| format!("step {step}: on_executed failed: {e:?}"))?;
        let after = read_comp(&vm)?;
        let volume = if c.only_increase { t.after.saturating_sub(t.before) } else { t.after.abs_diff(t.before) };
        let counted = t.success && ongoing && volume > 0;
        if counted {
            let v = volumes.entry(ti).or_insert(0);
            *v = v.saturating_add(volume);
        } else if after.leaderboard != before.leaderboard || after.end_time != before.end_time {
            return Err(format!("step {step}: an uncounted trade (success {}, ongoing {ongoing}, volume {volume}) changed the competition", t.success));
        }
        // participant volume
        let part = Participant::try_deserialize(&mut &vm.data(&participants[ti])[..]).map_err(|e| e.to_string())?;
        if part.volume != volumes.get(&ti).copied().unwrap_or(0) {
            return Err(format!("step {step}: participant volume {} != model {}", part.volume, volumes.get(&ti).copied().unwrap_or(0)));
        }
        // leaderboard invariants
        let lb = &after.leaderboard;
        if lb.len() > 5 {
            return Err(format!("step {step}: leaderboard has {} entries", lb.len()));
        }
        let mut seen = std::collections::BTreeSet::new();
        for (i, e) in lb.iter().enumerate() {
            if !seen.insert(e.address) {
                return Err(format!("step {step}: trader listed twice on the leaderboard"));
            }
            if i > 0 && lb[i - 1].volume < e.volume {
                return Err(format!("step {step}: leaderboard not in non-increasing order: {:?}", lb.iter().map(|e| e.volume).collect::<Vec<_>>()));
            }
            let who = (0..TRADERS).find(|k| trader(*k) == e.address).ok_or("unknown trader on the board")?;
            if volumes.get(&who).copied().unwrap_or(0) != e.volume {
                return Err(format!("step {step}: board shows volume {} for trader {who}, latest is {}", e.volume, volumes.get(&who).copied().unwrap_or(0)));
            }
        }
        let expected_len = volumes.len().min(5);
        if lb.len() != expected_len {
            return Err(format!("step {step}: {} traders have volume but the board lists {}", volumes.len(), lb.len()));
        }
        if lb.len() == 5 {
            let last = lb[4].volume;
            for (who, v) in &volumes {
                if !seen.contains(&trader(*who)) && *v > last {
                    return Err(format!("step {step}: trader {who} with volume {v} is off the board although the last entry has {last}"));
                }
            }
        }
        if counted && before.leaderboard.iter().map(|e| e.address).collect::<Vec<_>>() != lb.iter().map(|e| e.address).collect::<Vec<_>>() && !before.leaderboard.is_empty() {
            reranked = true;
        }
        // end time
        if after.end_time < before.end_time {
            return Err(format!("step {step}: end time moved earlier: {} -> {}", before.end_time, after.end_time));
        }
        let limit = before.end_time.max(now.saturating_add(c.cap as i64));
        if after.end_time > limit {
            return Err(format!("step {step}: end time {} beyond max(old end {}, now {} + cap {})", after.end_time, before.end_time, now, c.cap));
        }
        rec.class_if(after.end_time > before.end_time, "extended");
    }
    rec.class_if(volumes.len() >= 6, "more_traders_than_board");
    rec.class_if(reranked, "reranked");
    rec.nontrivial_if(volumes.len() >= 6 && reranked);
    svm::set_sysvars(Sysvars::default());
    Ok(())
}

pub fn run(ctx: &mut Ctx) {
    ctx.rule("cases = competition parameters (duration, volume threshold, extension, cap >= extension, only-count-increase, merge window) and 1..39 trades by 8 traders (before/after sizes incl. 0, tiny, threshold-sized and near u128::MAX, time steps that also run past the end, failed executions), executed through the real initialize_competition / create_participant_idempotent / on_executed instructions in svm-lite with a synthesised TradeData account; oracle = model of per-trader volume: board <= 5 distinct entries in non-increasing order showing the latest volume, board length == min(5, traders with volume), nobody off a full board exceeds its last entry, uncounted trades change nothing, end time never earlier and never beyond max(old end, now + cap); non-trivial = at least 6 traders with volume and a re-ranking");
    ctx.assume("svm-lite is not the Solana runtime; the callback authority PDA is marked as signer by the harness (in production it signs via CPI from the store program)");
    let n = ctx.cases(6_000, 300_000);
    ctx.search("leaderboard", n, case, check);
    ctx.floor("leaderboard:more_traders_than_board", 100);
    ctx.floor("leaderboard:reranked", 100);
    ctx.floor("leaderboard:extended", 100);
}
