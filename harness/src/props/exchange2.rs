//! Extensions of C22 (`solvency_glv`) and C23 (`lifecycle_glv`, `lifecycle_decrease`) on the GLV
//! world (`world2x::GlvWorld` = the seeded exchange world plus one GLV over the four long/short
//! markets): GLV deposits (market tokens and/or initial long/short tokens with swap paths), GLV
//! withdrawals (plain / swapped out), keeper GLV shifts, ADL after adverse price moves, closed-state
//! updates, market toggles and GLV caps. Every instruction is the real `gmsol_store` entrypoint.

use crate::engine::{pick, Ctx, Rec};
use crate::svm;
use crate::world2::{self as w2, ata, ata2022, token_amount, vault_of, OrderRef, World, USD};
use crate::world2x::{self as wx, GlvDepositRef, GlvShiftRef, GlvWithdrawalRef, GlvWorld, MEMBERS};
use anchor_lang::solana_program::{instruction::Instruction, program_error::ProgramError, pubkey::Pubkey};
use proptest::prelude::*;
use serde::{Deserialize, Serialize};
use std::collections::{BTreeMap, BTreeSet};

const N_MARKETS: usize = 6;
const PENDING: u8 = 0;
const COMPLETED: u8 = 1;
const CANCELLED: u8 = 2;
const CLOSED: u8 = 3;

fn is_runtime_rule(e: &ProgramError) -> bool {
    matches!(e, ProgramError::Custom(c) if (0xdead_0001..=0xdead_0007).contains(c))
}

/// Raw amount of `token` worth roughly `$ (a+1)` (long token: $100, 9 decimals; short: $1, 6 decimals).
fn amt(w: &World, token: &Pubkey, a: u16) -> u64 {
    if *token == w.long_mint {
        (a as u64 + 1) * 10_000_000
    } else {
        (a as u64 + 1) * 1_000_000
    }
}

/// USD value (unit 1e20) of a raw token amount at the model mid price.
fn usd_value(w: &World, token: &Pubkey, raw: u64) -> u128 {
    let (mid, _) = w.prices[token];
    let dec = if *token == w.long_mint { w2::LONG_DECIMALS } else { w2::SHORT_DECIMALS } as u32;
    raw as u128 * mid * 10u128.pow(12) / 10u128.pow(dec)
}

fn other_member(m: usize, salt: usize) -> usize {
    let c: Vec<usize> = MEMBERS.iter().copied().filter(|k| *k != m).collect();
    c[salt % c.len()]
}

/// Token balances that matter for the GLV accounting: GLV supply, per member (GLV vault amount,
/// market-token supply, store vault of the market token).
#[derive(Clone, Debug, PartialEq, Eq)]
struct GlvSnap {
    supply: u64,
    vaults: Vec<u64>,
    mt_supply: Vec<u64>,
    mt_store_vault: Vec<u64>,
}

fn glv_snap(gw: &GlvWorld) -> GlvSnap {
    let w = &gw.w;
    GlvSnap {
        supply: gw.glv_supply(),
        vaults: gw.members.iter().map(|k| token_amount(&w.vm, &ata(&gw.g.glv, &w.markets[*k].token))).collect(),
        mt_supply: gw.members.iter().map(|k| w2::mint_supply(&w.vm, &w.markets[*k].token)).collect(),
        mt_store_vault: gw.members.iter().map(|k| token_amount(&w.vm, &vault_of(&w.store, &w.markets[*k].token))).collect(),
    }
}

// ============================================================================================ C22 (GLV)

#[derive(Debug, Clone, Serialize, Deserialize)]
pub enum GOp {
    /// shape: 0 market tokens only; 1 long + short tokens; 2 long side paid in the short token through
    /// another member market; 3 market tokens + long tokens; 4 both sides paid in the long token
    /// (short side through a swap path); 5 short tokens only.
    GlvDeposit { user: u8, market: u8, shape: u8, mt: u8, long: u16, short: u16, fate: u8 },
    /// swap_out: 0 none; 1 long output swapped to the short token; 2 short output swapped to the long token.
    GlvWithdraw { user: u8, market: u8, frac: u8, swap_out: u8, fate: u8 },
    GlvShift { from: u8, to: u8, frac: u8, fate: u8 },
    /// what: 0 remove caps; 1 max amount; 2 max value; 3 toggle deposits off; 4 toggle deposits on.
    GlvConfig { market: u8, what: u8, rel: u16 },
    Deposit { user: u8, market: u8, long: u16, short: u16 },
    Withdraw { user: u8, market: u8, frac: u8 },
    Swap { user: u8, start_long: bool, hops: Vec<u8>, amount: u16 },
    Increase { user: u8, market: u8, is_long: bool, collateral_long: bool, amount: u16, leverage: u8 },
    Decrease { which: u16, frac: u8 },
    Liquidate { which: u16 },
    /// Move the index price in the position's favour, optionally refresh the ADL state, deleverage.
    Adl { which: u16, move_pct: u8, frac: u8, update_state: bool },
    /// Publish the index feed of the market with the given market-status flag and call `update_closed_state`.
    Closed { market: u8, feed_open: bool },
    Toggle { market: u8, enable: bool },
    Price { token: u8, pct: i8, spread: u8 },
    Clock { secs: u16 },
}

#[derive(Debug, Clone, Serialize, Deserialize)]
pub struct GHistory {
    pub ops: Vec<GOp>,
}

fn fate() -> impl Strategy<Value = u8> {
    // 0 execute + close, 1 owner cancels while pending, 2 soft failure (impossible min output) + close, 3 left pending
    prop_oneof![12 => Just(0u8), 2 => Just(1u8), 2 => Just(2u8), 1 => Just(3u8)]
}

fn gop() -> impl Strategy<Value = GOp> {
    let a = || prop_oneof![3 => 0u16..2000, 1 => 2000u16..60000, 1 => Just(0u16)];
    prop_oneof![
        7 => (0u8..3, 0u8..4, 0u8..6, any::<u8>(), a(), a(), fate()).prop_map(|(user, market, shape, mt, long, short, fate)| GOp::GlvDeposit { user, market, shape, mt, long, short, fate }),
        5 => (0u8..3, 0u8..4, any::<u8>(), prop_oneof![2 => Just(0u8), 1 => Just(1u8), 1 => Just(2u8)], fate()).prop_map(|(user, market, frac, swap_out, fate)| GOp::GlvWithdraw { user, market, frac, swap_out, fate }),
        4 => (0u8..4, 0u8..4, any::<u8>(), fate()).prop_map(|(from, to, frac, fate)| GOp::GlvShift { from, to, frac, fate }),
        2 => (0u8..4, 0u8..5, prop_oneof![2 => 500u16..1000, 2 => 1000u16..2000]).prop_map(|(market, what, rel)| GOp::GlvConfig { market, what, rel }),
        1 => (0u8..3, 0u8..6, a(), a()).prop_map(|(user, market, long, short)| GOp::Deposit { user, market, long, short }),
        1 => (0u8..3, 0u8..6, any::<u8>()).prop_map(|(user, market, frac)| GOp::Withdraw { user, market, frac }),
        2 => (0u8..3, any::<bool>(), proptest::collection::vec(0u8..4, 1..3), a()).prop_map(|(user, start_long, hops, amount)| GOp::Swap { user, start_long, hops, amount }),
        6 => (0u8..3, 0u8..6, any::<bool>(), any::<bool>(), prop_oneof![1 => 0u16..2000, 3 => 2000u16..60000], 2u8..50).prop_map(|(user, market, is_long, collateral_long, amount, leverage)| GOp::Increase { user, market, is_long, collateral_long, amount, leverage }),
        2 => (any::<u16>(), any::<u8>()).prop_map(|(which, frac)| GOp::Decrease { which, frac }),
        1 => any::<u16>().prop_map(|which| GOp::Liquidate { which }),
        5 => (any::<u16>(), 0u8..60, any::<u8>(), prop_oneof![4 => Just(true), 1 => Just(false)]).prop_map(|(which, move_pct, frac, update_state)| GOp::Adl { which, move_pct, frac, update_state }),
        3 => (0u8..6, prop_oneof![1 => Just(false), 1 => Just(true)]).prop_map(|(market, feed_open)| GOp::Closed { market, feed_open }),
        1 => (0u8..6, prop_oneof![1 => Just(false), 2 => Just(true)]).prop_map(|(market, enable)| GOp::Toggle { market, enable }),
        3 => (0u8..4, prop_oneof![3 => -15i8..=15, 1 => -50i8..=50], 0u8..40).prop_map(|(token, pct, spread)| GOp::Price { token, pct, spread }),
        1 => (prop_oneof![3 => 1u16..100, 1 => 100u16..5000]).prop_map(|secs| GOp::Clock { secs }),
    ]
}

fn ghistory() -> impl Strategy<Value = GHistory> {
    proptest::collection::vec(gop(), 8..=22).prop_map(|ops| GHistory { ops })
}

#[derive(Clone, Debug, PartialEq, Eq)]
struct PosKey {
    owner: Pubkey,
    market: usize,
    is_long: bool,
    collateral_long: bool,
}

struct GRun<'a> {
    gw: GlvWorld,
    rec: &'a mut Rec,
    positions: Vec<PosKey>,
    glv_touched: BTreeSet<usize>,
    glv_in: bool,
    glv_out: bool,
    /// Markets currently flagged closed / disabled (model copy, for class counting only).
    closed: BTreeSet<usize>,
    disabled: BTreeSet<usize>,
}

impl GRun<'_> {
    /// Execute one instruction; after a success check the C22 invariants (market solvency, GLV
    /// balances == GLV vaults) and, unless the caller judges the supply itself, that the GLV token
    /// supply did not move.
    fn exec(&mut self, what: &str, i: &Instruction, supply_may_change: bool) -> Result<Result<(), ProgramError>, String> {
        let supply = self.gw.glv_supply();
        let r = self.gw.w.vm.process(i);
        match &r {
            Ok(()) => {
                self.gw.w.check_solvency().map_err(|e| format!("after successful `{what}`: {e}"))?;
                self.gw.check_glv_balances().map_err(|e| format!("after successful `{what}`: {e}"))?;
                let now = self.gw.glv_supply();
                if !supply_may_change && now != supply {
                    return Err(format!("`{what}` changed the GLV token supply {supply} -> {now}"));
                }
            }
            Err(e) if is_runtime_rule(e) => {
                return Err(format!("`{what}` broke a runtime rule of svm-lite: {e:?} {:?}", svm::take_logs().last()));
            }
            Err(_) => {}
        }
        Ok(r)
    }

    fn all(&mut self, what: &str, ixs: &[Instruction]) -> Result<bool, String> {
        for i in ixs {
            if self.exec(what, i, false)?.is_err() {
                return Ok(false);
            }
        }
        Ok(true)
    }

    fn fresh(&mut self) -> Result<(), String> {
        self.gw.w.advance(1);
        self.gw.w.refresh_prices()
    }

    fn member_index(&self, m: usize) -> usize {
        self.gw.members.iter().position(|k| *k == m).expect("member")
    }

    fn note_env(&mut self) {
        self.rec.class_if(!self.closed.is_empty(), "glv_action_executed_while_a_market_is_closed");
    }

    fn step(&mut self, op: &GOp) -> Result<(), String> {
        let keeper = self.gw.w.keeper;
        let keeper2 = self.gw.w.keeper2;
        let (lm, sm) = (self.gw.w.long_mint, self.gw.w.short_mint);
        let g = self.gw.g.clone();
        let members = self.gw.members.clone();
        match op {
            GOp::GlvDeposit { user, market, shape, mt, long, short, fate } => {
                let owner = self.gw.w.user(*user as usize);
                let m = MEMBERS[*market as usize % 4];
                let info = self.gw.w.markets[m].clone();
                let mt_bal = token_amount(&self.gw.w.vm, &ata(&owner, &info.token));
                let mt_amount = (mt_bal as u128 * (*mt as u128 + 1) / 1024) as u64;
                let mut r = wx::glv_deposit_ref(&mut self.gw.w, owner, m);
                let w = &self.gw.w;
                match shape % 6 {
                    0 => r.market_token_amount = mt_amount,
                    1 => {
                        r.long_token = Some(lm);
                        r.short_token = Some(sm);
                        r.long_amount = amt(w, &lm, *long);
                        r.short_amount = amt(w, &sm, *short);
                    }
                    2 => {
                        r.long_token = Some(sm);
                        r.long_amount = amt(w, &sm, *long);
                        r.long_path = vec![other_member(m, *short as usize)];
                    }
                    3 => {
                        r.market_token_amount = mt_amount;
                        r.long_token = Some(lm);
                        r.long_amount = amt(w, &lm, *long);
                    }
                    4 => {
                        r.long_token = Some(lm);
                        r.short_token = Some(lm);
                        r.long_amount = amt(w, &lm, *long);
                        r.short_amount = amt(w, &lm, *short);
                        let k1 = other_member(m, *long as usize);
                        let rest: Vec<usize> = MEMBERS.iter().copied().filter(|k| *k != m && *k != k1).collect();
                        r.short_path = if *short % 2 == 0 { vec![k1] } else { vec![k1, rest[0], rest[1]] };
                    }
                    _ => {
                        r.short_token = Some(sm);
                        r.short_amount = amt(w, &sm, *short);
                    }
                }
                if r.market_token_amount == 0 && r.long_amount == 0 && r.short_amount == 0 {
                    return Ok(());
                }
                if *fate == 2 {
                    r.min_glv = u64::MAX;
                }
                let prep = wx::ixs_prepare_glv_deposit(&self.gw.w, &g, &r);
                if !self.all("prepare escrow", &prep)? {
                    return Ok(());
                }
                if self.exec("create_glv_deposit", &wx::ix_create_glv_deposit(&self.gw.w, &g, &r), false)?.is_err() {
                    self.rec.class("glv_create_rejected");
                    return Ok(());
                }
                match fate {
                    1 => {
                        if self.exec("close_glv_deposit (pending, owner)", &wx::ix_close_glv_deposit(&self.gw.w, &g, &r, owner), false)?.is_ok() {
                            self.rec.class("glv_owner_cancelled");
                        }
                    }
                    3 => self.rec.class("glv_left_pending"),
                    _ => {
                        self.fresh()?;
                        let before = glv_snap(&self.gw);
                        let escrow_glv = token_amount(&self.gw.w.vm, &ata2022(&r.action, &g.glv_token));
                        let i = wx::ix_execute_glv_deposit(&self.gw.w, &g, &members, &r, keeper, 5000, false);
                        if self.exec("execute_glv_deposit", &i, true)?.is_ok() {
                            let after = glv_snap(&self.gw);
                            let minted = token_amount(&self.gw.w.vm, &ata2022(&r.action, &g.glv_token)) as i128 - escrow_glv as i128;
                            let k = self.member_index(m);
                            match w2::action_state(&self.gw.w.vm, &r.action) {
                                Some(COMPLETED) => {
                                    let d_supply = after.supply as i128 - before.supply as i128;
                                    if d_supply != minted || minted < 0 {
                                        return Err(format!("completed GLV deposit: GLV supply changed by {d_supply} but the escrow received {minted}"));
                                    }
                                    let d_mt = after.mt_supply[k] as i128 - before.mt_supply[k] as i128;
                                    let d_vault = after.vaults[k] as i128 - before.vaults[k] as i128;
                                    if d_mt < 0 || d_vault != r.market_token_amount as i128 + d_mt {
                                        return Err(format!("completed GLV deposit: GLV vault of market {m} changed by {d_vault}, expected the {} market tokens put in plus the {d_mt} minted by the market deposit", r.market_token_amount));
                                    }
                                    if (r.long_amount != 0 || r.short_amount != 0) && d_mt == 0 {
                                        return Err("completed GLV deposit with initial tokens minted no market tokens".into());
                                    }
                                    for j in 0..members.len() {
                                        if j != k && (after.vaults[j] != before.vaults[j] || after.mt_supply[j] != before.mt_supply[j]) {
                                            return Err(format!("GLV deposit into market {m} changed the GLV vault / market-token supply of member {}", members[j]));
                                        }
                                    }
                                    self.rec.class("glv_deposit_executed");
                                    self.rec.class_if(r.market_token_amount != 0 && d_mt == 0, "glv_deposit_market_tokens_only_executed");
                                    self.rec.class_if(d_mt != 0 && r.long_path.is_empty() && r.short_path.is_empty(), "glv_deposit_initial_tokens_executed");
                                    self.rec.class_if(!r.long_path.is_empty() || !r.short_path.is_empty(), "glv_deposit_with_swap_path_executed");
                                    self.rec.class_if(r.short_path.len() == 3, "glv_deposit_three_hop_path_executed");
                                    self.rec.class_if(r.market_token_amount != 0 && d_mt != 0, "glv_deposit_mixed_executed");
                                    self.glv_touched.insert(m);
                                    self.glv_in = true;
                                    self.note_env();
                                }
                                Some(CANCELLED) => {
                                    if after != before || minted != 0 {
                                        return Err(format!("cancelled GLV deposit changed GLV balances: {before:?} -> {after:?}, escrow GLV delta {minted}"));
                                    }
                                    self.rec.class("glv_soft_cancelled");
                                    self.rec.class_if(*fate != 2, "glv_deposit_cancelled_by_cap_or_market_state");
                                }
                                s => return Err(format!("successful execute_glv_deposit left state {s:?}")),
                            }
                        } else {
                            self.rec.class("glv_execute_failed");
                        }
                        let closer = if *long % 2 == 0 { owner } else { keeper2 };
                        let _ = self.exec("close_glv_deposit", &wx::ix_close_glv_deposit(&self.gw.w, &g, &r, closer), false)?;
                    }
                }
            }
            GOp::GlvWithdraw { user, market, frac, swap_out, fate } => {
                let owner = self.gw.w.user(*user as usize);
                let m = MEMBERS[*market as usize % 4];
                let bal = token_amount(&self.gw.w.vm, &ata2022(&owner, &g.glv_token));
                let amount = (bal as u128 * (*frac as u128 + 1) / 2048) as u64;
                if amount == 0 {
                    return Ok(());
                }
                let mut r = wx::glv_withdrawal_ref(&mut self.gw.w, owner, m, amount);
                match swap_out % 3 {
                    1 => {
                        r.final_long_token = sm;
                        r.long_path = vec![other_member(m, *frac as usize)];
                    }
                    2 => {
                        r.final_short_token = lm;
                        r.short_path = vec![other_member(m, *frac as usize)];
                    }
                    _ => {}
                }
                if *fate == 2 {
                    r.min_long = u64::MAX;
                }
                let prep = wx::ixs_prepare_glv_withdrawal(&self.gw.w, &g, &r);
                if !self.all("prepare escrow", &prep)? {
                    return Ok(());
                }
                if self.exec("create_glv_withdrawal", &wx::ix_create_glv_withdrawal(&self.gw.w, &g, &r), false)?.is_err() {
                    self.rec.class("glv_create_rejected");
                    return Ok(());
                }
                match fate {
                    1 => {
                        if self.exec("close_glv_withdrawal (pending, owner)", &wx::ix_close_glv_withdrawal(&self.gw.w, &g, &r, owner), false)?.is_ok() {
                            self.rec.class("glv_owner_cancelled");
                        }
                    }
                    3 => self.rec.class("glv_left_pending"),
                    _ => {
                        self.fresh()?;
                        let before = glv_snap(&self.gw);
                        let i = wx::ix_execute_glv_withdrawal(&self.gw.w, &g, &members, &r, keeper, 5000, false);
                        if self.exec("execute_glv_withdrawal", &i, true)?.is_ok() {
                            let after = glv_snap(&self.gw);
                            let k = self.member_index(m);
                            match w2::action_state(&self.gw.w.vm, &r.action) {
                                Some(COMPLETED) => {
                                    if before.supply - after.supply != amount || after.supply > before.supply {
                                        return Err(format!("completed GLV withdrawal of {amount}: supply {} -> {}", before.supply, after.supply));
                                    }
                                    let taken = before.vaults[k] as i128 - after.vaults[k] as i128;
                                    let burnt = before.mt_supply[k] as i128 - after.mt_supply[k] as i128;
                                    if taken < 0 || taken != burnt || after.mt_store_vault[k] != before.mt_store_vault[k] {
                                        return Err(format!("completed GLV withdrawal: {taken} market tokens left the GLV vault of market {m}, {burnt} were burnt, store vault {} -> {}", before.mt_store_vault[k], after.mt_store_vault[k]));
                                    }
                                    for j in 0..members.len() {
                                        if j != k && (after.vaults[j] != before.vaults[j] || after.mt_supply[j] != before.mt_supply[j]) {
                                            return Err(format!("GLV withdrawal from market {m} changed the GLV vault / market-token supply of member {}", members[j]));
                                        }
                                    }
                                    self.rec.class("glv_withdrawal_executed");
                                    self.rec.class_if(!r.long_path.is_empty() || !r.short_path.is_empty(), "glv_withdrawal_swapped_executed");
                                    self.glv_touched.insert(m);
                                    self.glv_out = true;
                                    self.note_env();
                                }
                                Some(CANCELLED) => {
                                    if after != before {
                                        return Err(format!("cancelled GLV withdrawal changed GLV balances: {before:?} -> {after:?}"));
                                    }
                                    self.rec.class("glv_soft_cancelled");
                                }
                                s => return Err(format!("successful execute_glv_withdrawal left state {s:?}")),
                            }
                        } else {
                            self.rec.class("glv_execute_failed");
                        }
                        let closer = if *frac % 2 == 0 { owner } else { keeper2 };
                        let _ = self.exec("close_glv_withdrawal", &wx::ix_close_glv_withdrawal(&self.gw.w, &g, &r, closer), false)?;
                    }
                }
            }
            GOp::GlvShift { from, to, frac, fate } => {
                let (f, t) = (MEMBERS[*from as usize % 4], MEMBERS[*to as usize % 4]);
                if f == t {
                    return Ok(());
                }
                let (kf, kt) = (self.member_index(f), self.member_index(t));
                let bal = self.gw.glv_balances()[kf].0;
                let amount = (bal as u128 * (*frac as u128 + 1) / 1024) as u64;
                if amount == 0 {
                    return Ok(());
                }
                let mut r = wx::glv_shift_ref(&mut self.gw.w, keeper, f, t, amount);
                if *fate == 2 {
                    r.min_out = u64::MAX;
                }
                if let Err(e) = self.exec("create_glv_shift", &wx::ix_create_glv_shift(&self.gw.w, &g, &r), false)? {
                    self.rec.class(match w2::code(&e) {
                        6120 => "glv_shift_create_rejected_interval",
                        6119 => "glv_shift_create_rejected_deposits_off",
                        _ => "glv_shift_create_rejected_other",
                    });
                    return Ok(());
                }
                match fate {
                    1 => {
                        if self.exec("close_glv_shift (pending, funder)", &wx::ix_close_glv_shift(&self.gw.w, &g, &r, keeper), false)?.is_ok() {
                            self.rec.class("glv_owner_cancelled");
                        }
                    }
                    3 => self.rec.class("glv_left_pending"),
                    _ => {
                        self.fresh()?;
                        let before = glv_snap(&self.gw);
                        let executor = if *frac % 2 == 0 { keeper } else { keeper2 };
                        let i = wx::ix_execute_glv_shift(&self.gw.w, &g, &r, executor, 5000, false);
                        if self.exec("execute_glv_shift", &i, false)?.is_ok() {
                            let after = glv_snap(&self.gw);
                            match w2::action_state(&self.gw.w.vm, &r.action) {
                                Some(COMPLETED) => {
                                    let out = before.vaults[kf] as i128 - after.vaults[kf] as i128;
                                    let burnt = before.mt_supply[kf] as i128 - after.mt_supply[kf] as i128;
                                    let got = after.vaults[kt] as i128 - before.vaults[kt] as i128;
                                    let minted = after.mt_supply[kt] as i128 - before.mt_supply[kt] as i128;
                                    if out != amount as i128 || burnt != out || got != minted || got <= 0 || after.mt_store_vault != before.mt_store_vault {
                                        return Err(format!("completed GLV shift of {amount} from market {f} to {t}: from-vault -{out}, burnt {burnt}, to-vault +{got}, minted {minted}, store vaults {:?} -> {:?}", before.mt_store_vault, after.mt_store_vault));
                                    }
                                    for j in 0..members.len() {
                                        if j != kf && j != kt && (after.vaults[j] != before.vaults[j] || after.mt_supply[j] != before.mt_supply[j]) {
                                            return Err(format!("GLV shift {f} -> {t} changed the GLV vault / market-token supply of member {}", members[j]));
                                        }
                                    }
                                    self.rec.class("glv_shift_executed");
                                    self.glv_touched.insert(f);
                                    self.glv_touched.insert(t);
                                    self.note_env();
                                }
                                Some(CANCELLED) => {
                                    if after != before {
                                        return Err(format!("cancelled GLV shift changed GLV balances: {before:?} -> {after:?}"));
                                    }
                                    self.rec.class("glv_soft_cancelled");
                                    self.rec.class_if(*fate != 2, "glv_shift_cancelled_by_limits");
                                }
                                s => return Err(format!("successful execute_glv_shift left state {s:?}")),
                            }
                        } else {
                            self.rec.class("glv_execute_failed");
                        }
                        let closer = if *frac % 4 < 2 { keeper } else { keeper2 };
                        let _ = self.exec("close_glv_shift", &wx::ix_close_glv_shift(&self.gw.w, &g, &r, closer), false)?;
                    }
                }
            }
            GOp::GlvConfig { market, what, rel } => {
                let m = MEMBERS[*market as usize % 4];
                let k = self.member_index(m);
                let bal = self.gw.glv_balances()[k].0;
                let i = match what % 5 {
                    0 => self.gw.w.ix_update_glv_market_config(keeper, &g, m, Some(0), Some(0)),
                    1 => self.gw.w.ix_update_glv_market_config(keeper, &g, m, Some(((bal as u128 * *rel as u128 / 1000) as u64).max(1)), None),
                    2 => {
                        // value cap relative to the value of the current balance at $1 per 1e9 market-token units
                        let v = bal as u128 * (USD / 1_000_000_000) * *rel as u128 / 1000;
                        self.gw.w.ix_update_glv_market_config(keeper, &g, m, None, Some(v.max(1)))
                    }
                    3 => self.gw.w.ix_toggle_glv_deposit_allowed(keeper, &g, m, false),
                    _ => self.gw.w.ix_toggle_glv_deposit_allowed(keeper, &g, m, true),
                };
                if self.exec("glv market config", &i, false)?.is_ok() {
                    self.rec.class("glv_config_changed");
                }
            }
            GOp::Deposit { user, market, long, short } => {
                let owner = self.gw.w.user(*user as usize);
                let m = *market as usize % N_MARKETS;
                let info = self.gw.w.markets[m].clone();
                let r = if info.is_pure() {
                    let a = amt(&self.gw.w, &info.long, *long);
                    self.gw.w.deposit_ref(owner, m, Some(info.long), None, a, 0)
                } else {
                    let (a, b) = (amt(&self.gw.w, &lm, *long), amt(&self.gw.w, &sm, *short));
                    self.gw.w.deposit_ref(owner, m, Some(lm), Some(sm), a, b)
                };
                let prep = self.gw.w.ixs_prepare_deposit(&r);
                if !self.all("prepare escrow", &prep)? || self.exec("create_deposit", &self.gw.w.ix_create_deposit(&r), false)?.is_err() {
                    return Ok(());
                }
                self.fresh()?;
                if self.exec("execute_deposit", &self.gw.w.ix_execute_deposit(&r, keeper, 5000, false), false)?.is_ok() {
                    self.rec.class_if(w2::action_state(&self.gw.w.vm, &r.deposit) == Some(COMPLETED), "deposit_executed");
                }
                let _ = self.exec("close_deposit", &self.gw.w.ix_close_deposit(&r, owner), false)?;
            }
            GOp::Withdraw { user, market, frac } => {
                let owner = self.gw.w.user(*user as usize);
                let m = *market as usize % N_MARKETS;
                let info = self.gw.w.markets[m].clone();
                let bal = token_amount(&self.gw.w.vm, &ata(&owner, &info.token));
                let amount = (bal as u128 * (*frac as u128 + 1) / 1024) as u64;
                if amount == 0 {
                    return Ok(());
                }
                let r = self.gw.w.withdrawal_ref(owner, m, amount);
                let prep = self.gw.w.ixs_prepare_withdrawal(&r);
                if !self.all("prepare escrow", &prep)? || self.exec("create_withdrawal", &self.gw.w.ix_create_withdrawal(&r), false)?.is_err() {
                    return Ok(());
                }
                self.fresh()?;
                if self.exec("execute_withdrawal", &self.gw.w.ix_execute_withdrawal(&r, keeper, 5000, false), false)?.is_ok() {
                    self.rec.class_if(w2::action_state(&self.gw.w.vm, &r.withdrawal) == Some(COMPLETED), "withdrawal_executed");
                }
                let _ = self.exec("close_withdrawal", &self.gw.w.ix_close_withdrawal(&r, owner), false)?;
            }
            GOp::Swap { user, start_long, hops, amount } => {
                let owner = self.gw.w.user(*user as usize);
                let path: Vec<usize> = hops.iter().map(|h| MEMBERS[*h as usize % 4]).collect();
                let token_in = if *start_long { lm } else { sm };
                let out_is_long = if path.len() % 2 == 1 { !*start_long } else { *start_long };
                let a = amt(&self.gw.w, &token_in, *amount);
                let r = self.gw.w.swap_order_ref(owner, *path.last().unwrap(), token_in, out_is_long, path.clone(), a);
                self.order_flow(r)?;
            }
            GOp::Increase { user, market, is_long, collateral_long, amount, leverage } => {
                let owner = self.gw.w.user(*user as usize);
                let m = *market as usize % N_MARKETS;
                let info = self.gw.w.markets[m].clone();
                let collateral = if *collateral_long { info.long } else { info.short };
                let a = amt(&self.gw.w, &collateral, *amount);
                let size = usd_value(&self.gw.w, &collateral, a) * *leverage as u128;
                let r = self.gw.w.increase_order_ref(owner, m, *is_long, *collateral_long, collateral, vec![], a, size);
                self.order_flow(r)?;
            }
            GOp::Decrease { which, frac } => {
                if self.positions.is_empty() {
                    return Ok(());
                }
                let p = self.positions[pick(*which, self.positions.len())].clone();
                let info = self.gw.w.markets[p.market].clone();
                let position = self.gw.w.position_of(&p.owner, p.market, p.collateral_long, p.is_long);
                let Some(state) = self.gw.w.position_state(&position) else { return Ok(()) };
                let size = if *frac >= 160 { state.state.size_in_usd } else { state.state.size_in_usd * (*frac as u128 + 1) / 256 };
                let collateral = if p.collateral_long { info.long } else { info.short };
                let r = self.gw.w.decrease_order_ref(p.owner, p.market, p.is_long, p.collateral_long, collateral, vec![], 0, size);
                self.order_flow(r)?;
            }
            GOp::Liquidate { which } => {
                if self.positions.is_empty() {
                    return Ok(());
                }
                let p = self.positions[pick(*which, self.positions.len())].clone();
                self.fresh()?;
                let r = self.gw.w.liquidation_ref(keeper, p.owner, p.market, p.is_long, p.collateral_long);
                let prep = self.gw.w.ixs_prepare_liquidation(&r, keeper);
                if !self.all("prepare liquidation", &prep)? {
                    return Ok(());
                }
                if self.exec("liquidate", &self.gw.w.ix_liquidate(&r, keeper, 5000), false)?.is_ok() {
                    self.rec.class("liquidation_executed");
                    self.positions.retain(|q| *q != p);
                    let _ = self.exec("close_order (liquidation)", &self.gw.w.ix_close_order(&r, keeper), false)?;
                }
            }
            GOp::Adl { which, move_pct, frac, update_state } => {
                if self.positions.is_empty() {
                    return Ok(());
                }
                let p = self.positions[pick(*which, self.positions.len())].clone();
                let info = self.gw.w.markets[p.market].clone();
                // adverse move for the pool: the index price moves in the position's favour
                if info.index != sm && *move_pct > 0 {
                    let (mid, sp) = self.gw.w.prices[&info.index];
                    let new = if p.is_long { mid * (100 + *move_pct as u128) / 100 } else { mid * (100 - (*move_pct as u128).min(90)) / 100 };
                    self.gw.w.set_price(&info.index, new.max(1), sp);
                }
                self.fresh()?;
                if *update_state {
                    if self.exec("update_adl_state", &self.gw.w.ix_update_adl_state(keeper, p.market, p.is_long), false)?.is_ok() {
                        self.rec.class_if(self.gw.w.market_state(p.market).is_adl_enabled(p.is_long), "adl_state_enabled");
                    }
                }
                let position = self.gw.w.position_of(&p.owner, p.market, p.collateral_long, p.is_long);
                let Some(state) = self.gw.w.position_state(&position) else { return Ok(()) };
                let size = if *frac >= 128 { state.state.size_in_usd } else { state.state.size_in_usd * (*frac as u128 + 1) / 256 };
                let r = self.gw.w.liquidation_ref(keeper, p.owner, p.market, p.is_long, p.collateral_long);
                let prep = self.gw.w.ixs_prepare_liquidation(&r, keeper);
                if !self.all("prepare adl", &prep)? {
                    return Ok(());
                }
                match self.exec("auto_deleverage", &self.gw.w.ix_auto_deleverage(&r, keeper, size, 5000), false)? {
                    Ok(()) => {
                        self.rec.class("adl_executed");
                        self.rec.class_if(MEMBERS.contains(&p.market), "adl_executed_in_glv_member");
                        let gone = self.gw.w.position_state(&position).map(|s| s.state.size_in_usd == 0).unwrap_or(true);
                        if gone {
                            self.positions.retain(|q| *q != p);
                            self.rec.class("position_closed_by_adl");
                        }
                        let _ = self.exec("close_order (adl)", &self.gw.w.ix_close_order(&r, keeper), false)?;
                    }
                    Err(e) => self.rec.class(match w2::code(&e) {
                        6092 => "adl_rejected_not_enabled",
                        6093 => "adl_rejected_not_required",
                        6094 => "adl_rejected_invalid",
                        6111 | 6127 => "adl_rejected_market_closed_or_disabled",
                        _ => "adl_rejected_other",
                    }),
                }
            }
            GOp::Closed { market, feed_open } => {
                // only a market with a synthetic index token can be closed (0, 2, 4); market 3's index is the short token
                let m = [0, 2, 4, 0, 2, 3][*market as usize % N_MARKETS];
                let index = self.gw.w.markets[m].index;
                self.fresh()?;
                let now = self.gw.w.sys.unix_timestamp;
                wx::write_feed_with_status(&mut self.gw.w, &index, now, *feed_open)?;
                let res = self.exec("update_closed_state", &wx::ix_update_closed_state(&self.gw.w, keeper, m), false)?;
                if res.is_ok() {
                    let closed = self.gw.w.market_state(m).is_closed();
                    if closed == *feed_open {
                        return Err(format!("update_closed_state with the index feed {} left market {m} closed={closed}", if *feed_open { "open" } else { "closed" }));
                    }
                    if closed {
                        self.closed.insert(m);
                        self.rec.class("market_closed");
                    } else {
                        self.rec.class_if(self.closed.remove(&m), "market_reopened");
                    }
                } else {
                    self.rec.class("update_closed_state_rejected");
                }
            }
            GOp::Toggle { market, enable } => {
                let m = *market as usize % N_MARKETS;
                if self.exec("toggle_market", &wx::ix_toggle_market(&self.gw.w, keeper, m, *enable), false)?.is_ok() {
                    if *enable {
                        self.disabled.remove(&m);
                        self.rec.class("market_enabled");
                    } else {
                        self.disabled.insert(m);
                        self.rec.class("market_disabled");
                    }
                }
            }
            GOp::Price { token, pct, spread } => {
                let tokens = [lm, sm, self.gw.w.index_token, self.gw.w.index_token2];
                let t = tokens[*token as usize % 4];
                let base: u128 = [100u128, 1, 2000, 50][*token as usize % 4] * 100_000_000;
                let (mid, _) = self.gw.w.prices[&t];
                let new = (mid as i128 * (100 + *pct as i128) / 100).max((base / 10) as i128).min((base * 10) as i128) as u128;
                let new = if t == sm { new.clamp(base * 95 / 100, base * 105 / 100) } else { new };
                self.gw.w.set_price(&t, new, *spread as u128);
                self.rec.class("price_change");
            }
            GOp::Clock { secs } => {
                self.gw.w.advance(*secs as i64);
            }
        }
        Ok(())
    }

    /// prepare -> create -> execute -> close for an order.
    fn order_flow(&mut self, r: OrderRef) -> Result<(), String> {
        let keeper = self.gw.w.keeper;
        let prep = self.gw.w.ixs_prepare_order(&r);
        if !self.all("prepare order", &prep)? {
            return Ok(());
        }
        if self.exec("create_order_v2", &self.gw.w.ix_create_order(&r), false)?.is_err() {
            return Ok(());
        }
        self.fresh()?;
        if r.is_decrease() {
            let prep = self.gw.w.ixs_prepare_claimables(keeper, r.market, r.owner, r.is_long);
            self.all("use_claimable_account", &prep)?;
        }
        if self.exec("execute_order", &self.gw.w.ix_execute_order(&r, keeper, 5000, false), false)?.is_ok() && w2::action_state(&self.gw.w.vm, &r.order) == Some(COMPLETED) {
            let k = PosKey { owner: r.owner, market: r.market, is_long: r.is_long, collateral_long: r.is_collateral_long };
            if r.is_swap() {
                self.rec.class("swap_executed");
            } else if r.is_increase() {
                self.rec.class("increase_executed");
                if !self.positions.contains(&k) {
                    self.positions.push(k);
                }
            } else {
                self.rec.class("decrease_executed");
                let gone = r.position.map(|p| self.gw.w.position_state(&p).map(|s| s.state.size_in_usd == 0).unwrap_or(true)).unwrap_or(false);
                if gone {
                    self.positions.retain(|q| *q != k);
                }
            }
        }
        let _ = self.exec("close_order_v2", &self.gw.w.ix_close_order(&r, r.owner), false)?;
        Ok(())
    }
}

/// ADL thresholds low enough for the histories to reach: ADL is allowed once the pending profit of
/// one side exceeds 0.5 % of the pool value and may reduce it down to 0.1 %.
fn glv_world_for_solvency() -> Result<GlvWorld, String> {
    static CACHE: std::sync::OnceLock<Result<GlvWorld, String>> = std::sync::OnceLock::new();
    let gw = CACHE
        .get_or_init(|| {
            let mut gw = GlvWorld::seeded()?;
            let markets: Vec<Pubkey> = gw.w.markets.iter().map(|m| m.market).collect();
            for market in markets {
                for side in ["long", "short"] {
                    gw.w.set_market_config(&market, &format!("max_pnl_factor_for_{side}_adl"), USD / 200)?;
                    gw.w.set_market_config(&market, &format!("min_pnl_factor_after_{side}_adl"), USD / 1000)?;
                }
            }
            let keeper = gw.w.keeper;
            let params = gmsol_store::states::glv::UpdateGlvParams { min_tokens_for_first_deposit: None, shift_min_interval_secs: Some(20), shift_max_price_impact_factor: None, shift_min_value: None };
            gw.w.vm.process(&wx::ix_update_glv_config(&gw.w, keeper, &gw.g, params)).map_err(|e| format!("update_glv_config: {e:?}"))?;
            Ok(gw)
        })
        .clone()?;
    gw.w.activate();
    Ok(gw)
}

fn check_c22_glv(h: &GHistory, rec: &mut Rec) -> Result<(), String> {
    let gw = glv_world_for_solvency()?;
    gw.w.check_solvency().map_err(|e| format!("seeded world: {e}"))?;
    gw.check_glv_balances().map_err(|e| format!("seeded world: {e}"))?;
    let mut run = GRun { gw, rec, positions: vec![], glv_touched: BTreeSet::new(), glv_in: false, glv_out: false, closed: BTreeSet::new(), disabled: BTreeSet::new() };
    for (i, op) in h.ops.iter().enumerate() {
        run.step(op).map_err(|e| format!("op {i} {op:?}: {e}"))?;
    }
    run.gw.w.check_solvency().map_err(|e| format!("end of history: {e}"))?;
    run.gw.check_glv_balances().map_err(|e| format!("end of history: {e}"))?;
    let (touched, both) = (run.glv_touched.len(), run.glv_in && run.glv_out);
    rec.class_if(touched >= 2, "two_or_more_glv_members_touched");
    rec.nontrivial_if(touched >= 2 && both);
    svm::set_sysvars(svm::Sysvars::default());
    Ok(())
}

/// C22 on histories with GLV actions, GLV shifts, ADL, closed-state updates and market toggles.
pub fn run_c22_glv(ctx: &mut Ctx) {
    ctx.rule("search `solvency_glv`: cases = histories of 8..22 operations on the seeded six-market world plus one GLV over the four long/short markets (seeded with market tokens of every member; ADL limits 0.5 % / 0.1 % of the pool, GLV shift interval 20 s): GLV deposits of market tokens, of initial long/short tokens, through 1- and 3-hop swap paths, both sides paid in one token, and mixed; GLV withdrawals plain or with either output swapped through another member; keeper GLV shifts between members (create_glv_shift / execute_glv_shift / close_glv_shift by the funder or the other keeper); per-member caps (max amount / max value) and deposit toggles; plain deposits, withdrawals, 1-2 hop swaps, increases (2-49x), decreases, liquidation attempts; `auto_deleverage` after a 0..59 % index move in the position's favour (with or without `update_adl_state`); `update_closed_state` with the index feed published closed or open; `toggle_market`; price moves and clock jumps; every GLV action is cancelled by its owner, executed (successfully or with an unreachable minimum) and closed by owner or keeper, or left pending. Oracle after EVERY successful instruction, from the account bytes: the C22 market/vault invariant (`World::check_solvency`), the balance the GLV records for each member == the token amount of the GLV's vault for that market token, and the GLV token supply is unchanged unless the instruction is an execution that completed a GLV deposit (supply grows by exactly what the deposit's GLV escrow received; the GLV vault grows by the market tokens put in plus the market tokens minted for the initial tokens) or a GLV withdrawal (supply shrinks by exactly the requested amount; the market tokens leaving the GLV vault are exactly those burnt); a completed GLV shift moves exactly the requested amount out of the from-vault (burnt) and mints the to-vault's increase; cancelled executions leave supply, vaults and market-token supplies untouched; non-trivial = GLV tokens minted and burnt in one history touching at least two members");
    ctx.assume("as for `solvency`; virtual inventories are not part of the histories; the closed index feed exists only during the `update_closed_state` call (the next action refreshes every feed open again, so the market stays flagged closed with open feeds until the keeper updates it); nobody donates market tokens to a GLV vault (the equality of recorded balance and vault amount is judged strictly)");
    let n = ctx.cases(800, 40_000);
    ctx.search("solvency_glv", n, ghistory, check_c22_glv);
    for (class, floor) in [("glv_deposit_executed", 320), ("glv_deposit_market_tokens_only_executed", 85), ("glv_deposit_initial_tokens_executed", 200), ("glv_deposit_with_swap_path_executed", 150), ("glv_deposit_three_hop_path_executed", 28), ("glv_deposit_mixed_executed", 80), ("glv_withdrawal_executed", 280), ("glv_withdrawal_swapped_executed", 170), ("glv_shift_executed", 200), ("glv_soft_cancelled", 160), ("glv_owner_cancelled", 180), ("glv_config_changed", 180), ("adl_executed", 32), ("adl_executed_in_glv_member", 16), ("adl_state_enabled", 55), ("market_closed", 140), ("market_reopened", 9), ("glv_action_executed_while_a_market_is_closed", 25), ("market_disabled", 40), ("increase_executed", 220), ("swap_executed", 180), ("two_or_more_glv_members_touched", 350)] {
        ctx.floor(&format!("solvency_glv:{class}"), floor);
    }
}

// ============================================================================================ C23 (GLV)

#[derive(Debug, Clone, Serialize, Deserialize)]
pub enum GStep {
    /// by: 0 keeper, 1 second keeper, 2 owner (GLV shift: a plain user), 3 stranger.
    /// mode: 0 fresh prices; 1 request expired (soft failure); 2 expired + throw_on_execution_error
    /// (hard); 3 feeds older than the heartbeat (hard); 4 prices older than the action (hard);
    /// 5 fresh prices after the long token lost 20 % (restored afterwards).
    Exec { by: u8, mode: u8 },
    /// by: 0 owner (GLV shift: the keeper that funded it), 1 keeper (GLV shift: a plain user),
    /// 2 second keeper, 3 stranger.
    Close { by: u8 },
}

#[derive(Debug, Clone, Serialize, Deserialize)]
pub struct GlvLifeCase {
    /// 0 GLV deposit, 1 GLV withdrawal, 2 GLV shift.
    pub kind: u8,
    pub market: u8,
    /// deposit: 0 market tokens; 1 long + short tokens; 2 long side paid in the short token through a
    /// swap path; 3 market tokens + long tokens; 4 both sides paid in the long token (short side
    /// through a path); 5 long tokens only. withdrawal: 0 plain; 1 long output swapped; 2 short output
    /// swapped; 3 both outputs swapped (crossed). shift: offset of the destination member.
    pub shape: u8,
    pub amount: u16,
    /// 0 none; 1 unreachable minimum output; 2 per-member max amount equal to the current balance
    /// (deposit into / shift to that member must be cancelled); 3 minimum output 3 % below the
    /// output at creation prices (deposit shape 5 / withdrawal shape 3: execution mode 5 must cancel);
    /// 4 GLV shift: another shift executes between creation and execution (min interval not passed);
    /// 5 GLV shift: min shift value raised above the shifted value.
    pub failure: u8,
    pub extra_lamports: u32,
    pub fee: u32,
    pub steps: Vec<GStep>,
}

fn glv_life_case() -> impl Strategy<Value = GlvLifeCase> {
    let step = prop_oneof![
        5 => (prop_oneof![6 => Just(0u8), 2 => Just(1u8), 1 => Just(2u8), 1 => Just(3u8)], prop_oneof![7 => Just(0u8), 2 => Just(1u8), 1 => Just(2u8), 1 => Just(3u8), 1 => Just(4u8), 4 => Just(5u8)]).prop_map(|(by, mode)| GStep::Exec { by, mode }),
        4 => (prop_oneof![2 => Just(0u8), 2 => Just(1u8), 1 => Just(2u8), 2 => Just(3u8)]).prop_map(|by| GStep::Close { by }),
    ];
    (
        0u8..3,
        0u8..4,
        0u8..6,
        0u16..3000,
        prop_oneof![6 => Just(0u8), 2 => Just(1u8), 2 => Just(2u8), 3 => Just(3u8), 1 => Just(4u8), 1 => Just(5u8)],
        prop_oneof![1 => Just(0u32), 1 => 0u32..100_000, 10 => 100_000u32..2_000_000],
        prop_oneof![1 => Just(0u32), 3 => 0u32..3_000_000],
        proptest::collection::vec(step, 1..7),
    )
        .prop_map(|(kind, market, shape, amount, failure, extra_lamports, fee, steps)| GlvLifeCase { kind, market, shape, amount, failure, extra_lamports, fee, steps })
}

#[derive(Clone, Debug)]
enum GlvAction {
    Deposit(GlvDepositRef),
    Withdrawal(GlvWithdrawalRef),
    Shift(GlvShiftRef),
}

impl GlvAction {
    fn key(&self) -> Pubkey {
        match self {
            GlvAction::Deposit(r) => r.action,
            GlvAction::Withdrawal(r) => r.action,
            GlvAction::Shift(r) => r.action,
        }
    }
    fn execution_lamports(&self) -> u64 {
        match self {
            GlvAction::Deposit(r) => r.execution_lamports,
            GlvAction::Withdrawal(r) => r.execution_lamports,
            GlvAction::Shift(r) => r.execution_lamports,
        }
    }
    fn prepare(&self, gw: &GlvWorld) -> Vec<Instruction> {
        match self {
            GlvAction::Deposit(r) => wx::ixs_prepare_glv_deposit(&gw.w, &gw.g, r),
            GlvAction::Withdrawal(r) => wx::ixs_prepare_glv_withdrawal(&gw.w, &gw.g, r),
            GlvAction::Shift(_) => vec![],
        }
    }
    fn create(&self, gw: &GlvWorld) -> Instruction {
        match self {
            GlvAction::Deposit(r) => wx::ix_create_glv_deposit(&gw.w, &gw.g, r),
            GlvAction::Withdrawal(r) => wx::ix_create_glv_withdrawal(&gw.w, &gw.g, r),
            GlvAction::Shift(r) => wx::ix_create_glv_shift(&gw.w, &gw.g, r),
        }
    }
    fn execute(&self, gw: &GlvWorld, by: Pubkey, fee: u64, throw: bool) -> Instruction {
        match self {
            GlvAction::Deposit(r) => wx::ix_execute_glv_deposit(&gw.w, &gw.g, &gw.members, r, by, fee, throw),
            GlvAction::Withdrawal(r) => wx::ix_execute_glv_withdrawal(&gw.w, &gw.g, &gw.members, r, by, fee, throw),
            GlvAction::Shift(r) => wx::ix_execute_glv_shift(&gw.w, &gw.g, r, by, fee, throw),
        }
    }
    fn close(&self, gw: &GlvWorld, by: Pubkey) -> Instruction {
        match self {
            GlvAction::Deposit(r) => wx::ix_close_glv_deposit(&gw.w, &gw.g, r, by),
            GlvAction::Withdrawal(r) => wx::ix_close_glv_withdrawal(&gw.w, &gw.g, r, by),
            GlvAction::Shift(r) => wx::ix_close_glv_shift(&gw.w, &gw.g, r, by),
        }
    }
    /// Escrow token accounts of the action (the GLV-token escrow is a token-2022 ATA).
    fn escrows(&self, gw: &GlvWorld) -> Vec<Pubkey> {
        let k = self.key();
        match self {
            GlvAction::Deposit(r) => {
                let mut v: Vec<Pubkey> = r.escrow_mints(&gw.w).iter().map(|m| ata(&k, m)).collect();
                v.push(ata2022(&k, &gw.g.glv_token));
                v
            }
            GlvAction::Withdrawal(r) => {
                let mut v: Vec<Pubkey> = r.escrow_mints(&gw.w).iter().map(|m| ata(&k, m)).collect();
                v.push(ata2022(&k, &gw.g.glv_token));
                v
            }
            GlvAction::Shift(_) => vec![],
        }
    }
}

/// Every SPL token / token-2022 token account: key -> (mint, authority, amount).
fn all_token_accounts(vm: &svm::Svm) -> BTreeMap<Pubkey, (Pubkey, Pubkey, u64)> {
    let mut out = BTreeMap::new();
    for (k, a) in &vm.accounts {
        let is_account = (a.owner == spl_token::ID && a.data.len() == 165) || (a.owner == spl_token_2022::ID && (a.data.len() == 165 || (a.data.len() > 165 && a.data[165] == 2)));
        if is_account {
            let mint = Pubkey::new_from_array(a.data[0..32].try_into().unwrap());
            let auth = Pubkey::new_from_array(a.data[32..64].try_into().unwrap());
            let amount = u64::from_le_bytes(a.data[64..72].try_into().unwrap());
            out.insert(*k, (mint, auth, amount));
        }
    }
    out
}

/// What the token ledger compares between "before the creation" and "after the close".
#[derive(Clone, Debug, PartialEq, Eq)]
struct Ledger {
    tokens: BTreeMap<Pubkey, (Pubkey, Pubkey, u64)>,
    /// wallet of the owner per mint (long, short, market tokens, GLV token)
    owner: BTreeMap<Pubkey, u64>,
    /// store vault per mint (long, short, market tokens)
    vaults: BTreeMap<Pubkey, u64>,
    glv: GlvSnap,
    glv_recorded: Vec<(u64, u64)>,
    mt_supply: Vec<u64>,
}

fn ledger(gw: &GlvWorld, owner: &Pubkey) -> Ledger {
    let w = &gw.w;
    let mut mints = vec![w.long_mint, w.short_mint];
    mints.extend(w.markets.iter().map(|mi| mi.token));
    let mut own: BTreeMap<Pubkey, u64> = mints.iter().map(|mint| (*mint, token_amount(&w.vm, &ata(owner, mint)))).collect();
    own.insert(gw.g.glv_token, token_amount(&w.vm, &ata2022(owner, &gw.g.glv_token)));
    Ledger {
        tokens: all_token_accounts(&w.vm),
        owner: own,
        vaults: mints.iter().map(|mint| (*mint, token_amount(&w.vm, &vault_of(&w.store, mint)))).collect(),
        glv: glv_snap(gw),
        glv_recorded: gw.glv_balances(),
        mt_supply: w.markets.iter().map(|mi| w2::mint_supply(&w.vm, &mi.token)).collect(),
    }
}

fn check_c23_glv(c: &GlvLifeCase, rec: &mut Rec) -> Result<(), String> {
    let mut gw = GlvWorld::seeded()?;
    let (keeper, keeper2, stranger) = (gw.w.keeper, gw.w.keeper2, gw.w.stranger);
    let (lm, sm) = (gw.w.long_mint, gw.w.short_mint);
    let g = gw.g.clone();
    let kind = c.kind % 3;
    let m = MEMBERS[c.market as usize % 4];
    let info = gw.w.markets[m].clone();
    let user = gw.w.user(0);
    // the party that creates, funds and may cancel the action
    let owner = if kind == 2 { keeper } else { user };
    let exec_lamports = 200_000 + c.extra_lamports as u64;
    gw.w.advance(2);

    // ---- build the action
    let mut shape = c.shape;
    let mut failure = c.failure % 6;
    if (failure == 3 && kind == 2) || (failure >= 4 && kind != 2) || (failure == 2 && kind == 1) {
        failure = 0;
    }
    if failure == 3 {
        // the slippage bound is judged on the shapes whose output depends on the long-token price
        shape = if kind == 0 { 5 } else { 3 };
    }
    let mut action = match kind {
        0 => {
            let mt_bal = token_amount(&gw.w.vm, &ata(&owner, &info.token));
            let mt_amount = (mt_bal as u128 * (c.amount as u128 + 1) / 12_000) as u64;
            let mut r = wx::glv_deposit_ref(&mut gw.w, owner, m);
            let w = &gw.w;
            match shape % 6 {
                0 => r.market_token_amount = mt_amount,
                1 => {
                    r.long_token = Some(lm);
                    r.short_token = Some(sm);
                    r.long_amount = amt(w, &lm, c.amount);
                    r.short_amount = amt(w, &sm, c.amount / 2);
                }
                2 => {
                    r.long_token = Some(sm);
                    r.long_amount = amt(w, &sm, c.amount);
                    r.long_path = vec![other_member(m, c.amount as usize)];
                }
                3 => {
                    r.market_token_amount = mt_amount;
                    r.long_token = Some(lm);
                    r.long_amount = amt(w, &lm, c.amount);
                }
                4 => {
                    r.long_token = Some(lm);
                    r.short_token = Some(lm);
                    r.long_amount = amt(w, &lm, c.amount);
                    r.short_amount = amt(w, &lm, c.amount / 3);
                    r.short_path = vec![other_member(m, c.amount as usize)];
                }
                _ => {
                    r.long_token = Some(lm);
                    r.long_amount = amt(w, &lm, c.amount);
                }
            }
            if failure == 1 {
                if c.amount % 2 == 0 || (r.long_amount == 0 && r.short_amount == 0) {
                    r.min_glv = u64::MAX;
                } else {
                    r.min_market_tokens = u64::MAX;
                }
            }
            r.execution_lamports = exec_lamports;
            GlvAction::Deposit(r)
        }
        1 => {
            let bal = token_amount(&gw.w.vm, &ata2022(&owner, &g.glv_token));
            let amount = ((bal as u128 * (c.amount as u128 + 1) / 12_000) as u64).max(1);
            let mut r = wx::glv_withdrawal_ref(&mut gw.w, owner, m, amount);
            let other = other_member(m, c.amount as usize);
            if shape % 4 == 1 || shape % 4 == 3 {
                r.final_long_token = sm;
                r.long_path = vec![other];
            }
            if shape % 4 == 2 || shape % 4 == 3 {
                r.final_short_token = lm;
                r.short_path = vec![other_member(m, c.amount as usize + 1)];
            }
            if failure == 1 {
                if c.amount % 2 == 0 {
                    r.min_long = u64::MAX;
                } else {
                    r.min_short = u64::MAX;
                }
            }
            r.execution_lamports = exec_lamports;
            GlvAction::Withdrawal(r)
        }
        _ => {
            let t = other_member(m, shape as usize);
            let k = gw.members.iter().position(|x| *x == m).unwrap();
            let bal = gw.glv_balances()[k].0;
            let amount = ((bal as u128 * (c.amount as u128 + 1) / 6_000) as u64).max(1);
            let mut r = wx::glv_shift_ref(&mut gw.w, owner, m, t, amount);
            if failure == 1 {
                r.min_out = u64::MAX;
            }
            // GLV shifts have no minimum execution fee
            r.execution_lamports = if c.extra_lamports == 0 { 0 } else { exec_lamports };
            GlvAction::Shift(r)
        }
    };

    // ---- set-up outside the measured lifecycle
    let cap_target = match &action {
        GlvAction::Deposit(r) => r.market,
        GlvAction::Shift(r) => r.to,
        GlvAction::Withdrawal(r) => r.market,
    };
    if failure == 2 {
        let k = gw.members.iter().position(|x| *x == cap_target).unwrap();
        let bal = gw.glv_balances()[k].0;
        gw.w.vm.process(&gw.w.ix_update_glv_market_config(keeper, &g, cap_target, Some(bal.max(1)), None)).map_err(|e| format!("setup cap: {e:?}"))?;
    }
    if failure == 5 {
        let params = gmsol_store::states::glv::UpdateGlvParams { min_tokens_for_first_deposit: None, shift_min_interval_secs: None, shift_max_price_impact_factor: None, shift_min_value: Some(u128::MAX / 4) };
        gw.w.vm.process(&wx::ix_update_glv_config(&gw.w, keeper, &g, params)).map_err(|e| format!("setup min shift value: {e:?}"))?;
    }
    if failure == 3 {
        // dry run on a copy of the world: the output at the prices of the creation
        let mut d = gw.clone();
        for i in action.prepare(&d) {
            d.w.vm.process(&i).map_err(|e| format!("dry run prepare: {e:?}"))?;
        }
        d.w.vm.process(&action.create(&d)).map_err(|e| format!("dry run create: {e:?}"))?;
        d.w.advance(1);
        d.w.refresh_prices()?;
        d.w.vm.process(&action.execute(&d, keeper, 0, true)).map_err(|e| format!("dry run execute: {e:?}"))?;
        match &mut action {
            GlvAction::Deposit(r) => {
                let out = token_amount(&d.w.vm, &ata2022(&r.action, &g.glv_token));
                r.min_glv = (out as u128 * 97 / 100) as u64;
            }
            GlvAction::Withdrawal(r) => {
                let out = token_amount(&d.w.vm, &ata(&r.action, &sm));
                r.min_long = (out as u128 * 97 / 100) as u64;
            }
            GlvAction::Shift(_) => {}
        }
        svm::set_sysvars(gw.w.sys);
        svm::take_events();
    }

    // a stranger (no role) cannot create a GLV shift
    if let GlvAction::Shift(r) = &action {
        let mut bad = r.clone();
        bad.funder = stranger;
        bad.action = Pubkey::find_program_address(&[b"shift", gw.w.store.as_ref(), stranger.as_ref(), &bad.nonce], &w2::PID).0;
        if gw.w.vm.process(&wx::ix_create_glv_shift(&gw.w, &g, &bad)).is_ok() {
            return Err("create_glv_shift succeeded for a signer without the ORDER_KEEPER role".into());
        }
        rec.class("glv_shift_create_by_stranger_rejected");
    }

    // ---- snapshot S0
    let keys0: BTreeSet<Pubkey> = gw.w.vm.accounts.keys().copied().collect();
    let parties = [owner, keeper, keeper2, stranger, user];
    let lam0: BTreeMap<Pubkey, u64> = parties.iter().map(|k| (*k, w2::lamports(&gw.w.vm, k))).collect();
    let mut l0 = ledger(&gw, &user);

    // ---- create
    for i in action.prepare(&gw) {
        gw.w.vm.process(&i).map_err(|e| format!("prepare failed: {e:?}"))?;
    }
    if let Err(e) = gw.w.vm.process(&action.create(&gw)) {
        return Err(format!("creation of a well-formed GLV action failed: {e:?} {:?}", svm::take_logs().last()));
    }
    if w2::action_state(&gw.w.vm, &action.key()) != Some(PENDING) {
        return Err("a freshly created GLV action is not Pending".into());
    }
    let escrows = action.escrows(&gw);
    let created_at = gw.w.sys.unix_timestamp;
    rec.class(["glv_deposit", "glv_withdrawal", "glv_shift"][kind as usize]);
    if let GlvAction::Deposit(r) = &action {
        rec.class_if(r.market_token_amount != 0 && r.long_amount == 0 && r.short_amount == 0, "glv_deposit_of_market_tokens");
        rec.class_if(r.long_amount != 0 || r.short_amount != 0, "glv_deposit_of_initial_tokens");
        rec.class_if(!r.long_path.is_empty() || !r.short_path.is_empty(), "glv_deposit_with_swap_path");
    }
    if let GlvAction::Withdrawal(r) = &action {
        rec.class_if(!r.long_path.is_empty() || !r.short_path.is_empty(), "glv_withdrawal_with_swap_path");
    }
    if failure == 4 {
        // another shift (second keeper, fee 0, closed right away) executes after our creation
        let GlvAction::Shift(ours) = &action else { unreachable!() };
        let mut b = wx::glv_shift_ref(&mut gw.w, keeper2, ours.to, ours.from, 1_000_000);
        b.execution_lamports = 0;
        gw.w.vm.process(&wx::ix_create_glv_shift(&gw.w, &g, &b)).map_err(|e| format!("blocker create: {e:?}"))?;
        gw.w.advance(1);
        gw.w.refresh_prices()?;
        gw.w.vm.process(&wx::ix_execute_glv_shift(&gw.w, &g, &b, keeper2, 0, true)).map_err(|e| format!("blocker execute: {e:?} {:?}", svm::take_logs().last()))?;
        gw.w.vm.process(&wx::ix_close_glv_shift(&gw.w, &g, &b, keeper2)).map_err(|e| format!("blocker close: {e:?}"))?;
        // a GLV shift holds no escrow: the token ledger starts after the blocker
        l0 = ledger(&gw, &user);
    }

    // ---- the script
    let mut state = PENDING;
    let mut fees: BTreeMap<Pubkey, u64> = BTreeMap::new();
    let mut steps: Vec<GStep> = c.steps.clone();
    steps.push(GStep::Close { by: 0 });
    for (si, step) in steps.iter().enumerate() {
        let forced = si + 1 == steps.len();
        if forced && state == CLOSED {
            break;
        }
        match step {
            GStep::Exec { by, mode } => {
                let actor = [keeper, keeper2, user, stranger][*by as usize % 4];
                let is_keeper = *by % 4 < 2;
                let mut saved_price: Option<(Pubkey, u128, u128)> = None;
                match mode % 6 {
                    0 => {
                        gw.w.advance(1);
                        gw.w.refresh_prices()?;
                    }
                    1 | 2 => {
                        let target = created_at + 3601 + (c.amount as i64 % 50);
                        let d = (target - gw.w.sys.unix_timestamp).max(1);
                        gw.w.advance(d);
                        gw.w.refresh_prices()?;
                    }
                    3 => gw.w.advance(w2::HEARTBEAT as i64 + 1 + (c.amount as i64 % 100)),
                    5 => {
                        let (mid, sp) = gw.w.prices[&lm];
                        saved_price = Some((lm, mid, sp));
                        gw.w.set_price(&lm, mid * 80 / 100, sp);
                        gw.w.advance(1);
                        gw.w.refresh_prices()?;
                    }
                    _ => {}
                }
                let throw = mode % 6 == 2;
                let images_before = gw.w.market_images();
                let before = ledger(&gw, &user);
                let escrow_before: Vec<u64> = escrows.iter().map(|e| token_amount(&gw.w.vm, e)).collect();
                let actor_lamports = w2::lamports(&gw.w.vm, &actor);
                let res = gw.w.vm.process(&action.execute(&gw, actor, c.fee as u64, throw));
                let on_chain = w2::action_state(&gw.w.vm, &action.key());
                if let Some((t, mid, sp)) = saved_price {
                    gw.w.set_price(&t, mid, sp);
                }
                let expect_ok: Option<bool> = if !is_keeper || state != PENDING {
                    Some(false)
                } else {
                    match mode % 6 {
                        0 | 1 | 5 => Some(true),
                        2 | 3 => Some(false),
                        _ => None,
                    }
                };
                match (&res, expect_ok) {
                    (Ok(()), Some(false)) => return Err(format!("step {si} {step:?}: execution succeeded although it must be rejected (model state {state}, keeper {is_keeper}); on-chain state now {on_chain:?}")),
                    (Err(e), Some(true)) => return Err(format!("step {si} {step:?}: execution by a keeper of a Pending GLV action with fresh prices failed: {e:?} {:?}", svm::take_logs().last())),
                    _ => {}
                }
                match res {
                    Ok(()) => {
                        let new_state = on_chain.ok_or("action account vanished during execution")?;
                        if new_state != COMPLETED && new_state != CANCELLED {
                            return Err(format!("step {si}: successful execution left the action in state {new_state}"));
                        }
                        // (an earlier step may already have moved the clock past the request expiration)
                        let expired = gw.w.sys.unix_timestamp > created_at + 3600;
                        let adverse = mode % 6 == 5 && failure == 3;
                        let must_cancel = expired || adverse || matches!(failure, 1 | 2 | 4 | 5);
                        if must_cancel && new_state != CANCELLED {
                            return Err(format!(
                                "step {si}: execution completed although {}",
                                if expired {
                                    "the request was expired"
                                } else if adverse {
                                    "the long token lost 20 % against a 3 % slippage bound"
                                } else {
                                    ["", "it was created with an unreachable minimum output", "the member's max amount equals its current balance", "", "the GLV's minimum shift interval has not passed", "the shifted value is below the GLV's minimum shift value"][failure as usize]
                                }
                            ));
                        }
                        if !must_cancel && matches!(mode % 6, 0 | 5) && new_state != COMPLETED {
                            return Err(format!("step {si}: execution with fresh prices and no reason to fail was cancelled: {:?}", svm::take_logs().iter().rev().take(4).collect::<Vec<_>>()));
                        }
                        let paid = (c.fee as u64).min(action.execution_lamports());
                        let got = w2::lamports(&gw.w.vm, &actor) as i128 - actor_lamports as i128;
                        if got != paid as i128 {
                            return Err(format!("step {si}: executor lamports changed by {got}, expected the execution fee {paid}"));
                        }
                        *fees.entry(actor).or_default() += paid;
                        let after = ledger(&gw, &user);
                        if new_state == CANCELLED {
                            if let Some(d) = World::image_diff(&images_before, &gw.w.market_images()) {
                                return Err(format!("step {si}: a failed (cancelled) execution changed a market: {d}"));
                            }
                            let escrow_after: Vec<u64> = escrows.iter().map(|e| token_amount(&gw.w.vm, e)).collect();
                            if escrow_after != escrow_before {
                                return Err(format!("step {si}: a cancelled execution did not restore the escrow balances: {escrow_before:?} -> {escrow_after:?}"));
                            }
                            if after.vaults != before.vaults {
                                return Err(format!("step {si}: a cancelled execution changed a store vault balance: {:?} -> {:?}", before.vaults, after.vaults));
                            }
                            if after.glv != before.glv || after.glv_recorded != before.glv_recorded {
                                return Err(format!("step {si}: a cancelled execution changed the GLV: {:?} {:?} -> {:?} {:?}", before.glv, before.glv_recorded, after.glv, after.glv_recorded));
                            }
                            if after.tokens != before.tokens {
                                return Err(format!("step {si}: a cancelled execution moved tokens"));
                            }
                            rec.class(if expired {
                                "soft_failure_expired"
                            } else if adverse {
                                "soft_failure_adverse_price"
                            } else {
                                match failure {
                                    2 => "soft_failure_cap",
                                    4 => "soft_failure_shift_interval",
                                    5 => "soft_failure_shift_min_value",
                                    _ => "soft_failure_min_output",
                                }
                            });
                        } else {
                            rec.class("completed");
                            rec.class_if(failure == 3, "completed_within_tight_minimum");
                        }
                        for (rec_bal, actual) in &after.glv_recorded {
                            if rec_bal != actual {
                                return Err(format!("step {si}: after the execution the GLV records {rec_bal} but its vault holds {actual}"));
                            }
                        }
                        state = new_state;
                    }
                    Err(_) => {
                        rec.class_if(state != PENDING && state != CLOSED && is_keeper, "re_execution_rejected");
                        rec.class_if(!is_keeper, "execution_by_non_keeper_rejected");
                        rec.class_if(is_keeper && state == PENDING, "hard_failure");
                        if on_chain != (if state == CLOSED { None } else { Some(state) }) {
                            return Err(format!("step {si}: failed execution changed the action state to {on_chain:?}"));
                        }
                    }
                }
            }
            GStep::Close { by } => {
                // deposit / withdrawal: owner, keeper, second keeper, stranger;
                // shift: funding keeper, a plain user, the other keeper, stranger
                let actor = if kind == 2 { [owner, user, keeper2, stranger][*by as usize % 4] } else { [owner, keeper, keeper2, stranger][*by as usize % 4] };
                let terminal = state == COMPLETED || state == CANCELLED;
                let expect_ok = match (kind, by % 4) {
                    (_, 0) => state != CLOSED,
                    (2, 1) => false,
                    (_, 1) | (_, 2) => terminal,
                    _ => false,
                };
                let is_other_keeper = (kind == 2 && by % 4 == 2) || (kind != 2 && (by % 4 == 1 || by % 4 == 2));
                let res = gw.w.vm.process(&action.close(&gw, actor));
                match (&res, expect_ok) {
                    (Ok(()), false) => return Err(format!("step {si} {step:?}: close succeeded in model state {state} (0 pending, 1 completed, 2 cancelled, 3 closed) although this caller may not close it")),
                    (Err(e), true) => return Err(format!("step {si} {step:?}: close failed in model state {state}: {e:?} {:?}", svm::take_logs().last())),
                    _ => {}
                }
                if let Err(e) = &res {
                    rec.class_if(by % 4 == 3 || (kind == 2 && by % 4 == 1), "close_by_non_keeper_rejected");
                    if is_other_keeper && state == PENDING {
                        rec.class("keeper_close_of_pending_rejected");
                        if w2::code(e) != 6004 {
                            return Err(format!("step {si}: keeper close of a Pending GLV action failed with {e:?}, expected PermissionDenied (6004)"));
                        }
                    }
                    continue;
                }
                if gw.w.vm.get(&action.key()).is_some() {
                    return Err(format!("step {si}: close succeeded but the action account still exists"));
                }
                for e in &escrows {
                    if gw.w.vm.get(e).is_some() {
                        return Err(format!("step {si}: escrow account {e} survived the close"));
                    }
                }
                rec.class(match (state, by % 4) {
                    (PENDING, 0) => "pending_closed_by_owner",
                    (CANCELLED, 0) => "cancelled_closed_by_owner",
                    (CANCELLED, _) => "cancelled_closed_by_keeper",
                    (COMPLETED, 0) => "completed_closed_by_owner",
                    _ => "completed_closed_by_keeper",
                });
                // ---- token ledger
                let l1 = ledger(&gw, &user);
                for (k, (mint, auth, amount)) in &l1.tokens {
                    let before = l0.tokens.get(k).map(|t| t.2).unwrap_or(0);
                    if *amount != before && *auth != user && *auth != gw.w.store && *auth != g.glv {
                        return Err(format!("after the close token account {k} (mint {mint}, authority {auth}) holds {amount}, before the action {before}: tokens went to a third party"));
                    }
                }
                for (k, (_, auth, amount)) in &l0.tokens {
                    if !l1.tokens.contains_key(k) && *amount != 0 {
                        return Err(format!("token account {k} (authority {auth}) with {amount} tokens disappeared"));
                    }
                }
                for (rec_bal, actual) in &l1.glv_recorded {
                    if rec_bal != actual {
                        return Err(format!("after the close the GLV records {rec_bal} but its vault holds {actual}"));
                    }
                }
                if state != COMPLETED {
                    if l1.owner != l0.owner {
                        return Err(format!("a {} GLV action was closed but the owner's wallet balances differ from before the creation: {:?} -> {:?}", if state == PENDING { "pending" } else { "cancelled" }, l0.owner, l1.owner));
                    }
                    if l1.vaults != l0.vaults || l1.glv != l0.glv || l1.mt_supply != l0.mt_supply {
                        return Err("store vaults, GLV vaults or token supplies differ after a pending/cancelled GLV action was closed".into());
                    }
                } else {
                    for mint in [lm, sm] {
                        let store_side = |t: &BTreeMap<Pubkey, (Pubkey, Pubkey, u64)>| -> i128 { t.values().filter(|(mi, au, _)| *mi == mint && *au == gw.w.store).map(|x| x.2 as i128).sum() };
                        let d_owner = l1.owner[&mint] as i128 - l0.owner[&mint] as i128;
                        let d_store = store_side(&l1.tokens) - store_side(&l0.tokens);
                        if d_owner + d_store != 0 {
                            return Err(format!("mint {mint}: owner wallet changed by {d_owner} but store-held accounts by {d_store}"));
                        }
                    }
                    for (mi, info) in gw.w.markets.iter().enumerate() {
                        let d_supply = l1.mt_supply[mi] as i128 - l0.mt_supply[mi] as i128;
                        let d_owner = l1.owner[&info.token] as i128 - l0.owner[&info.token] as i128;
                        let d_vault = l1.vaults[&info.token] as i128 - l0.vaults[&info.token] as i128;
                        let d_glv = gw.members.iter().position(|x| *x == mi).map(|k| l1.glv.vaults[k] as i128 - l0.glv.vaults[k] as i128).unwrap_or(0);
                        if d_owner + d_vault + d_glv != d_supply {
                            return Err(format!("market token {mi}: supply changed by {d_supply}, owner by {d_owner}, store vault by {d_vault}, GLV vault by {d_glv}"));
                        }
                    }
                    let d_glv_supply = l1.glv.supply as i128 - l0.glv.supply as i128;
                    let d_glv_owner = l1.owner[&g.glv_token] as i128 - l0.owner[&g.glv_token] as i128;
                    if d_glv_supply != d_glv_owner {
                        return Err(format!("GLV token: supply changed by {d_glv_supply} but the owner's wallet by {d_glv_owner}"));
                    }
                    let ok = match &action {
                        GlvAction::Deposit(_) => d_glv_supply > 0,
                        GlvAction::Withdrawal(r) => d_glv_supply == -(r.amount as i128),
                        GlvAction::Shift(_) => d_glv_supply == 0,
                    };
                    if !ok {
                        return Err(format!("completed {}: GLV token supply changed by {d_glv_supply}", ["GLV deposit", "GLV withdrawal", "GLV shift"][kind as usize]));
                    }
                }
                // ---- lamport ledger: executors earn exactly their fees; the funding party pays the
                // fees and whatever is left in accounts created for the action (nothing); nobody else moves
                let new_accounts: i128 = gw.w.vm.accounts.iter().filter(|(k, _)| !keys0.contains(*k)).map(|(_, a)| a.lamports as i128).sum();
                let total_fees: i128 = fees.values().map(|f| *f as i128).sum();
                let mut seen = BTreeSet::new();
                for p in parties {
                    if !seen.insert(p) {
                        continue;
                    }
                    let d = w2::lamports(&gw.w.vm, &p) as i128 - lam0[&p] as i128;
                    let earned = fees.get(&p).copied().unwrap_or(0) as i128;
                    let expected = earned - if p == owner { total_fees + new_accounts } else { 0 };
                    if d != expected {
                        return Err(format!("lamports of {} changed by {d}, expected {expected} (fees earned {earned}, total fees {total_fees}, lamports left in new accounts {new_accounts})", if p == owner { "the funding party" } else if p == stranger { "the stranger" } else if p == user { "the user" } else { "a keeper" }));
                    }
                }
                state = CLOSED;
            }
        }
    }
    rec.nontrivial_if(c.steps.len() >= 2);
    svm::set_sysvars(svm::Sysvars::default());
    Ok(())
}

/// C23 for GLV deposits, GLV withdrawals and GLV shifts.
pub fn run_c23_glv(ctx: &mut Ctx) {
    ctx.rule("search `lifecycle_glv`: cases = one GLV action in the GLV world (GLV over the four long/short markets, every member seeded): a GLV deposit (market tokens / long + short tokens / long side paid through a swap path / market tokens + long tokens / both sides in one token with a path / long tokens only), a GLV withdrawal (plain / long output swapped / short output swapped / both swapped) created by a user, or a GLV shift between two members created by an ORDER_KEEPER; optional injected failure (unreachable min GLV / market-token / output amount, member max amount equal to its current balance, a 3 % slippage bound computed by a dry run on a copy of the world, another shift executing in between so that the GLV's min shift interval has not passed, min shift value above the shifted value); execution lamports 200000..2.2M (shift: also 0), fee argument 0..3M; then a script of 1..6 steps as in `lifecycle` (execute by keeper / second keeper / owner / stranger with fresh prices, expired without and with the throw flag, stale feeds, prices older than the action, fresh prices after the long token lost 20 %; close by owner / keeper / second keeper / stranger — for a GLV shift: funding keeper / plain user / other keeper / stranger) and a final close by the owner (funder). Oracle = model state machine Pending -> {Completed, Cancelled} -> Closed: an execution succeeds exactly when a keeper executes a Pending action with usable prices; it must end Cancelled when expired or when an injected failure applies and Completed when none applies and prices are fresh; the executor gains exactly min(fee, execution lamports); a cancelled execution leaves every market image, every store vault, every token account, the GLV vaults, the GLV's recorded balances and all token supplies unchanged; any execution on a terminal or closed action fails; close succeeds for the owner (funding keeper) in any live state, for other keepers only in terminal states (PermissionDenied otherwise), never for a stranger or a plain user; create_glv_shift by a signer without the role fails; after the close the action and all its escrow accounts (including the token-2022 GLV escrow) are gone, no third-party token account changed, recorded GLV balances equal the GLV vaults, a pending/cancelled action returns exactly the pre-creation wallet, vault, GLV and supply figures, a completed one conserves long/short tokens between owner and store, market tokens between owner, store vault, GLV vault and mint supply, and GLV tokens between owner and supply (deposit > 0, withdrawal = -amount, shift 0); every party's lamports moved by exactly fees earned minus (for the funding party) fees paid; non-trivial = scripts of at least two steps");
    ctx.assume("as for `lifecycle`; owners hold every ATA a close may pay into (a keeper close does not create ATAs, see the report for what happens otherwise)");
    let n = ctx.cases(3_600, 180_000);
    ctx.search("lifecycle_glv", n, glv_life_case, check_c23_glv);
    for (class, floor) in [("glv_deposit", 631), ("glv_withdrawal", 636), ("glv_shift", 635), ("glv_deposit_of_market_tokens", 77), ("glv_deposit_of_initial_tokens", 600), ("glv_deposit_with_swap_path", 170), ("glv_withdrawal_with_swap_path", 500), ("glv_shift_create_by_stranger_rejected", 635), ("completed", 700), ("completed_within_tight_minimum", 65), ("soft_failure_expired", 250), ("soft_failure_min_output", 120), ("soft_failure_cap", 75), ("soft_failure_adverse_price", 35), ("soft_failure_shift_interval", 14), ("soft_failure_shift_min_value", 18), ("hard_failure", 240), ("re_execution_rejected", 550), ("execution_by_non_keeper_rejected", 650), ("close_by_non_keeper_rejected", 900), ("keeper_close_of_pending_rejected", 420), ("pending_closed_by_owner", 800), ("cancelled_closed_by_owner", 450), ("cancelled_closed_by_keeper", 100), ("completed_closed_by_owner", 500), ("completed_closed_by_keeper", 150)] {
        ctx.floor(&format!("lifecycle_glv:{class}"), floor);
    }
}



// ============================================================================================ C23 (decrease orders: lamports)

#[derive(Debug, Clone, Serialize, Deserialize)]
pub struct DecCase {
    pub market: u8,
    pub is_long: bool,
    pub collateral_long: bool,
    /// 0 full close, 1 a third of the size, 2 full close with the output swapped to the other token,
    /// 3 partial with swapped output.
    pub shape: u8,
    pub impossible_price: bool,
    pub extra_lamports: u32,
    pub fee: u32,
    pub steps: Vec<GStep>,
}

fn dec_case() -> impl Strategy<Value = DecCase> {
    let step = prop_oneof![
        5 => (prop_oneof![6 => Just(0u8), 2 => Just(1u8), 1 => Just(2u8), 1 => Just(3u8)], prop_oneof![6 => Just(0u8), 2 => Just(1u8), 1 => Just(3u8)]).prop_map(|(by, mode)| GStep::Exec { by, mode }),
        3 => (prop_oneof![2 => Just(0u8), 2 => Just(1u8), 1 => Just(2u8), 1 => Just(3u8)]).prop_map(|by| GStep::Close { by }),
    ];
    (0u8..6, any::<bool>(), any::<bool>(), 0u8..4, prop_oneof![4 => Just(false), 1 => Just(true)], prop_oneof![1 => Just(0u32), 5 => 0u32..2_000_000], prop_oneof![1 => Just(0u32), 3 => 0u32..3_000_000], proptest::collection::vec(step, 1..5))
        .prop_map(|(market, is_long, collateral_long, shape, impossible_price, extra_lamports, fee, steps)| DecCase { market, is_long, collateral_long, shape, impossible_price, extra_lamports, fee, steps })
}

fn check_c23_decrease(c: &DecCase, rec: &mut Rec) -> Result<(), String> {
    let mut w = World::seeded()?;
    let (keeper, keeper2, stranger) = (w.keeper, w.keeper2, w.stranger);
    let m = c.market as usize % N_MARKETS;
    let info = w.markets[m].clone();
    let owner = w.user(0);
    let collateral = if c.collateral_long { info.long } else { info.short };
    // ---- set-up: a position (3x) opened through a real increase order
    let a = amt(&w, &collateral, 500);
    let size = usd_value(&w, &collateral, a) * 3;
    let r = w.increase_order_ref(owner, m, c.is_long, c.collateral_long, collateral, vec![], a, size);
    for i in w.ixs_prepare_order(&r) {
        w.vm.process(&i).map_err(|e| format!("setup prepare: {e:?}"))?;
    }
    w.vm.process(&w.ix_create_order(&r)).map_err(|e| format!("setup create increase: {e:?}"))?;
    w.advance(1);
    w.refresh_prices()?;
    w.vm.process(&w.ix_execute_order(&r, keeper, 0, true)).map_err(|e| format!("setup execute increase: {e:?}"))?;
    w.vm.process(&w.ix_close_order(&r, owner)).map_err(|e| format!("setup close increase: {e:?}"))?;
    w.advance(2);
    let position = w.position_of(&owner, m, c.collateral_long, c.is_long);
    let st = w.position_state(&position).ok_or("setup position missing")?;
    let full = c.shape % 2 == 0;
    let size = if full { st.state.size_in_usd } else { st.state.size_in_usd / 3 };
    let other = if collateral == w.long_mint { w.short_mint } else { w.long_mint };
    let (out, path) = if c.shape % 4 >= 2 { (other, vec![MEMBERS[c.fee as usize % 4]]) } else { (collateral, vec![]) };
    let mut d = w.decrease_order_ref(owner, m, c.is_long, c.collateral_long, out, path, 0, size);
    if c.impossible_price {
        d.acceptable_price = Some(if c.is_long { u128::MAX } else { 1 });
    }
    d.execution_lamports = 300_000 + c.extra_lamports as u64;

    // ---- snapshot S0: lamports of every account
    let lam0: BTreeMap<Pubkey, u64> = w.vm.accounts.iter().map(|(k, a)| (*k, a.lamports)).collect();
    for i in w.ixs_prepare_order(&d) {
        w.vm.process(&i).map_err(|e| format!("prepare failed: {e:?}"))?;
    }
    w.vm.process(&w.ix_create_order(&d)).map_err(|e| format!("creation of a well-formed decrease order failed: {e:?} {:?}", svm::take_logs().last()))?;
    let created_at = w.sys.unix_timestamp;
    rec.class(if full { "full_decrease" } else { "partial_decrease" });
    rec.class_if(!d.path.is_empty(), "decrease_with_swapped_output");

    let mut state = PENDING;
    let mut fees: BTreeMap<Pubkey, u64> = BTreeMap::new();
    let mut steps = c.steps.clone();
    steps.push(GStep::Close { by: 0 });
    for (si, step) in steps.iter().enumerate() {
        if si + 1 == steps.len() && state == CLOSED {
            break;
        }
        match step {
            GStep::Exec { by, mode } => {
                let actor = [keeper, keeper2, owner, stranger][*by as usize % 4];
                let is_keeper = *by % 4 < 2;
                match mode % 6 {
                    1 => {
                        let target = created_at + 3601;
                        let dt = (target - w.sys.unix_timestamp).max(1);
                        w.advance(dt);
                        w.refresh_prices()?;
                    }
                    3 => w.advance(w2::HEARTBEAT as i64 + 1),
                    _ => {
                        w.advance(1);
                        w.refresh_prices()?;
                    }
                }
                // claimable accounts of the current time window, paid by the second keeper
                for i in w.ixs_prepare_claimables(keeper2, m, owner, c.is_long) {
                    w.vm.process(&i).map_err(|e| format!("claimables: {e:?}"))?;
                }
                let actor_lamports = w2::lamports(&w.vm, &actor);
                let owner_lamports = w2::lamports(&w.vm, &owner);
                let position_lamports = w2::lamports(&w.vm, &position);
                let res = w.vm.process(&w.ix_execute_order(&d, actor, c.fee as u64, false));
                let expect_ok = is_keeper && state == PENDING && mode % 6 != 3;
                match (&res, expect_ok) {
                    (Ok(()), false) => return Err(format!("step {si} {step:?}: execution succeeded although it must be rejected (model state {state})")),
                    (Err(e), true) => return Err(format!("step {si} {step:?}: execution by a keeper of a Pending decrease order failed: {e:?} {:?}", svm::take_logs().last())),
                    _ => {}
                }
                if res.is_ok() {
                    let new_state = w2::action_state(&w.vm, &d.order).ok_or("order vanished")?;
                    if (mode % 6 == 1 || c.impossible_price) && new_state != CANCELLED {
                        return Err(format!("step {si}: execution completed although it had to fail softly"));
                    }
                    let paid = (c.fee as u64).min(d.execution_lamports);
                    let got = w2::lamports(&w.vm, &actor) as i128 - actor_lamports as i128;
                    if got != paid as i128 {
                        return Err(format!("step {si}: executor lamports changed by {got}, expected the execution fee {paid}"));
                    }
                    *fees.entry(actor).or_default() += paid;
                    let removed = w.vm.get(&position).is_none();
                    let d_owner = w2::lamports(&w.vm, &owner) as i128 - owner_lamports as i128;
                    if removed {
                        if new_state != COMPLETED || !full {
                            return Err(format!("step {si}: the position account was removed by a {} execution of a {} decrease", if new_state == COMPLETED { "completed" } else { "cancelled" }, if full { "full" } else { "partial" }));
                        }
                        if d_owner != position_lamports as i128 {
                            return Err(format!("step {si}: the position account held {position_lamports} lamports, the owner received {d_owner} when it was removed"));
                        }
                        rec.class("position_removed_rent_to_owner");
                    } else {
                        if d_owner != 0 {
                            return Err(format!("step {si}: owner lamports changed by {d_owner} during an execution that kept the position"));
                        }
                        if new_state == COMPLETED && full {
                            return Err(format!("step {si}: a completed full decrease left the position account in place"));
                        }
                    }
                    rec.class(if new_state == COMPLETED { "completed" } else { "soft_cancelled" });
                    state = new_state;
                } else {
                    rec.class_if(is_keeper && state == PENDING, "hard_failure");
                    rec.class_if(!is_keeper, "execution_by_non_keeper_rejected");
                }
            }
            GStep::Close { by } => {
                let actor = [owner, keeper, keeper2, stranger][*by as usize % 4];
                let expect_ok = match by % 4 {
                    0 => state != CLOSED,
                    1 | 2 => state == COMPLETED || state == CANCELLED,
                    _ => false,
                };
                let res = w.vm.process(&w.ix_close_order(&d, actor));
                match (&res, expect_ok) {
                    (Ok(()), false) => return Err(format!("step {si} {step:?}: close succeeded in model state {state} although this caller may not close it")),
                    (Err(e), true) => return Err(format!("step {si} {step:?}: close failed in model state {state}: {e:?} {:?}", svm::take_logs().last())),
                    _ => {}
                }
                if res.is_err() {
                    continue;
                }
                if w.vm.get(&d.order).is_some() {
                    return Err(format!("step {si}: close succeeded but the order account still exists"));
                }
                rec.class(match (state, by % 4) {
                    (PENDING, _) => "pending_closed_by_owner",
                    (CANCELLED, 0) => "cancelled_closed_by_owner",
                    (CANCELLED, _) => "cancelled_closed_by_keeper",
                    (_, 0) => "completed_closed_by_owner",
                    _ => "completed_closed_by_keeper",
                });
                // ---- the full lamport equation
                let tokens = w2::token_accounts(&w.vm);
                let is_claimable = |k: &Pubkey| tokens.get(k).map(|t| t.1 == w.store).unwrap_or(false);
                let new_claimable: i128 = w.vm.accounts.iter().filter(|(k, _)| !lam0.contains_key(*k) && is_claimable(k)).map(|(_, a)| a.lamports as i128).sum();
                let new_other: i128 = w.vm.accounts.iter().filter(|(k, _)| !lam0.contains_key(*k) && !is_claimable(k)).map(|(_, a)| a.lamports as i128).sum();
                let gone: i128 = lam0.iter().filter(|(k, _)| w.vm.get(k).is_none()).map(|(_, l)| *l as i128).sum();
                let total_fees: i128 = fees.values().map(|f| *f as i128).sum();
                let delta = |k: &Pubkey| w2::lamports(&w.vm, k) as i128 - lam0[k] as i128;
                let earned = |k: &Pubkey| fees.get(k).copied().unwrap_or(0) as i128;
                if delta(&owner) != gone - total_fees - new_other {
                    return Err(format!("owner lamports changed by {}; lamports of accounts that existed before and are gone (the position) {gone}, execution fees paid {total_fees}, lamports left in accounts created for the order {new_other}", delta(&owner)));
                }
                if delta(&keeper) != earned(&keeper) {
                    return Err(format!("keeper lamports changed by {}, fees earned {}", delta(&keeper), earned(&keeper)));
                }
                if delta(&keeper2) != earned(&keeper2) - new_claimable {
                    return Err(format!("second keeper lamports changed by {}, fees earned {}, rent paid for new claimable accounts {new_claimable}", delta(&keeper2), earned(&keeper2)));
                }
                if delta(&stranger) != 0 {
                    return Err(format!("stranger lamports changed by {}", delta(&stranger)));
                }
                // nobody else's lamports moved (markets, store, vaults, user account, event buffers...)
                for (k, a) in &w.vm.accounts {
                    if let Some(l) = lam0.get(k) {
                        if *l != a.lamports && ![owner, keeper, keeper2, stranger].contains(k) {
                            return Err(format!("lamports of account {k} changed {l} -> {}", a.lamports));
                        }
                    }
                }
                rec.class_if(gone > 0, "closed_after_position_removal");
                state = CLOSED;
            }
        }
    }
    rec.nontrivial_if(c.steps.len() >= 2);
    svm::set_sysvars(svm::Sysvars::default());
    Ok(())
}

/// C23: the lamport equation for decrease orders (skipped by `lifecycle`).
pub fn run_c23_decrease(ctx: &mut Ctx) {
    ctx.rule("search `lifecycle_decrease`: cases = a 3x position (long/short, either collateral token, any of the six markets) opened by a real increase order, then one market-decrease order (full / a third, output in the collateral token or swapped through a member market, optionally with an unreachable acceptable price; execution lamports 300000..2.3M, fee argument 0..3M) and a script of 1..4 steps (execute by keeper / second keeper / owner / stranger with fresh prices, after expiry, or with stale feeds; close by owner / keeper / second keeper / stranger) plus a final owner close; claimable accounts are (re)created by the second keeper before every execution. Oracle: state machine as in `lifecycle`; at every successful execution the executor gains exactly min(fee, execution lamports), the position account disappears exactly when a full decrease completes and then the owner receives exactly the lamports it held, otherwise the owner's lamports do not move; after the close, with S0 = lamports of every account before the order was prepared: owner delta = lamports(S0) of accounts that are gone (the position) - fees paid - lamports left in non-claimable accounts created since S0 (none); keeper delta = fees earned; second keeper delta = fees earned - rent of claimable accounts created since S0; stranger 0; no other pre-existing account (markets, store, vaults, user, event buffers, oracle) changed its lamports; non-trivial = scripts of at least two steps");
    ctx.assume("token-side conservation for decrease orders is judged by `lifecycle`; this search adds the lamport side only");
    let n = ctx.cases(800, 40_000);
    ctx.search("lifecycle_decrease", n, dec_case, check_c23_decrease);
    for (class, floor) in [("full_decrease", 220), ("partial_decrease", 220), ("decrease_with_swapped_output", 220), ("completed", 150), ("soft_cancelled", 110), ("position_removed_rent_to_owner", 75), ("closed_after_position_removal", 75), ("hard_failure", 28), ("execution_by_non_keeper_rejected", 120), ("pending_closed_by_owner", 140), ("completed_closed_by_owner", 120), ("completed_closed_by_keeper", 25), ("cancelled_closed_by_owner", 85), ("cancelled_closed_by_keeper", 15)] {
        ctx.floor(&format!("lifecycle_decrease:{class}"), floor);
    }
}
