//! C45, model clause: the GLV pricing helpers of `gmsol-model` (`crates/model/src/glv.rs`) value a market-token
//! balance with the *deposit* pnl cap and the caller's maximise flag, convert a GLV value back with the
//! *withdrawal* pnl cap, and never price against a negative pool value.

use crate::engine::{Ctx, Rec};
use crate::mgen::*;
use crate::props::perp::position_heavy;
use crate::refmath::*;
use gmsol_model::glv::{get_glv_value_for_market, get_market_token_amount_for_glv_value};
use gmsol_model::{LiquidityMarket, LiquidityMarketExt, PnlFactorKind};
use num_bigint::BigInt;
use num_traits::{Signed, Zero};
use proptest::prelude::*;
use serde::{Deserialize, Serialize};

#[derive(Debug, Clone, Serialize, Deserialize)]
pub struct GlvModelCase {
    pub history: History,
    /// market-token balance held by the GLV, in 1/65536 of the supply (may exceed the supply)
    pub balance_frac: u32,
    pub glv_value: u128,
}

fn case() -> impl Strategy<Value = GlvModelCase> {
    (position_heavy(12), prop_oneof![1 => Just(0u32), 6 => 1u32..=65_536, 1 => 65_537u32..=200_000], prop_oneof![1 => Just(0u128), 4 => 1u128..=10u128.pow(26), 1 => any::<u128>()])
        .prop_map(|(history, balance_frac, glv_value)| GlvModelCase { history, balance_frac, glv_value })
}

fn check(c: &GlvModelCase, rec: &mut Rec) -> Result<(), String> {
    let mut w = World::start(&c.history);
    for op in &c.history.ops {
        let _ = w.apply(op);
    }
    let prices = w.prices();
    let m = &w.market;
    let supply = m.total_supply();
    let balance = (b(supply) * b(c.balance_frac as u128) / b(65_536u128)).to_string().parse::<u128>().unwrap_or(u128::MAX);
    let divisor: u128 = 10u128.pow(11);
    let mut values = vec![];
    for maximize in [true, false] {
        // ---- value of a balance
        let pv = m.pool_value(&prices, PnlFactorKind::MaxAfterDeposit, maximize);
        let got = get_glv_value_for_market(&prices, m, balance, maximize);
        match (&pv, got) {
            (Err(_), Ok(_)) => return Err(format!("GLV value computed although the pool value ({maximize}) cannot be computed")),
            (Err(_), Err(_)) => rec.class("pool_value_unavailable"),
            (Ok(pv), Ok(g)) => {
                if g.pool_value != *pv || g.supply != supply {
                    return Err(format!("GLV value for market reports pool value {} / supply {}, the market says {pv} / {supply} (deposit pnl cap, maximize {maximize})", g.pool_value, g.supply));
                }
                if balance == 0 {
                    if g.market_token_value_in_glv != 0 {
                        return Err("zero balance valued above zero".into());
                    }
                } else {
                    if pv.is_negative() {
                        return Err(format!("a balance was valued against a negative pool value {pv}"));
                    }
                    if supply == 0 {
                        return Err("a balance was valued although the market token supply is zero".into());
                    }
                    let exact = b(balance) * BigInt::from(*pv) / b(supply);
                    if b(g.market_token_value_in_glv) != exact {
                        return Err(format!("GLV value {} != floor(balance {balance} * pool value {pv} / supply {supply}) = {exact}", g.market_token_value_in_glv));
                    }
                    rec.class("balance_valued");
                    rec.nontrivial_if(prices.index_token_price.min != prices.index_token_price.max || prices.long_token_price.min != prices.long_token_price.max);
                }
                values.push(g.market_token_value_in_glv);
            }
            (Ok(pv), Err(e)) => {
                let exact_fits = supply != 0 && !pv.is_negative() && b(balance) * BigInt::from(*pv) / b(supply) <= b(u128::MAX);
                if balance == 0 || exact_fits {
                    return Err(format!("GLV value for market failed ({e}) although floor(balance * pool value / supply) is computable (balance {balance}, pool value {pv}, supply {supply})"));
                }
                rec.class(if pv.is_negative() { "negative_pool_value_refused" } else { "value_not_computable" });
            }
        }
        // ---- market tokens for a GLV value
        let pvw = m.pool_value(&prices, PnlFactorKind::MaxAfterWithdrawal, maximize);
        let got = get_market_token_amount_for_glv_value(&prices, m, c.glv_value, maximize, divisor);
        if let Ok(pvw) = &pvw {
            let want: Option<BigInt> = if pvw.is_negative() {
                None
            } else if supply == 0 && pvw.is_zero() {
                Some(b(c.glv_value) / b(divisor))
            } else if supply == 0 {
                let s = b(c.glv_value) + BigInt::from(*pvw);
                if s <= b(u128::MAX) { Some(s / b(divisor)) } else { None }
            } else if pvw.is_zero() {
                None
            } else {
                Some(b(supply) * b(c.glv_value) / BigInt::from(*pvw))
            };
            match (got, want) {
                (Ok(a), Some(x)) if b(a) == x => rec.class("amount_for_value"),
                (Ok(a), w2) => return Err(format!("market token amount for GLV value {} = {a}, reference (withdrawal pnl cap, maximize {maximize}) = {w2:?}", c.glv_value)),
                (Err(_), Some(x)) if x <= b(u128::MAX) => return Err(format!("market token amount for GLV value {} failed although the reference {x} is computable", c.glv_value)),
                (Err(_), _) => rec.class("amount_not_computable"),
            }
        } else if got.is_ok() {
            return Err("market token amount computed although the pool value cannot be computed".into());
        }
    }
    // deposits use the maximised value, withdrawals the minimised one: max >= min for the same balance
    if values.len() == 2 && values[0] < values[1] {
        return Err(format!("maximised GLV value {} is below the minimised one {}", values[0], values[1]));
    }
    Ok(())
}

pub fn run_c45_model(ctx: &mut Ctx) {
    ctx.rule("search `glv_model` (model clause): market states reached by position-heavy histories (price spreads, open positions with pnl, fees, impact pools) x a market-token balance (0, a fraction of the supply, more than the supply) x a GLV value; oracle: get_glv_value_for_market reports the market's own pool value under the DEPOSIT pnl cap with the caller's maximise flag and the supply, values a balance at exactly floor(balance * pool value / supply), refuses a negative pool value, and the maximised value is never below the minimised one; get_market_token_amount_for_glv_value equals the USD->market-token conversion against the pool value under the WITHDRAWAL pnl cap; non-trivial = a valued balance under a price spread");
    let n = ctx.cases(20_000, 1_000_000);
    ctx.search("glv_model", n, case, check);
    ctx.floor("glv_model:balance_valued", 4_000);
    ctx.floor("glv_model:amount_for_value", 4_000);
}
