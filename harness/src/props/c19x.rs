//! C19 policy table, part 2: competition, liquidity-provider (admin part) and treasury (config part).
//!
//! These programs have (almost) no `# Errors` doc comments; the policy is taken from the
//! `#[access_control(CpiAuthenticate::only(.., ROLE))]` attributes, the `has_one = authority`
//! account constraints and the doc comments of the account structs.

use super::c19::{Auth, Entry, Expect, Rng};
use crate::svm;
use crate::world1::{codes, World1};
use anchor_lang::solana_program::{instruction::Instruction, pubkey::Pubkey, system_program};
use anchor_lang::{InstructionData, ToAccountMetas};
use gmsol_store::CoreError;

fn other(label: &str) -> Pubkey {
    svm::key_of(&format!("c19x-{label}"))
}

fn fund(w: &mut World1, key: Pubkey) -> Pubkey {
    if w.vm.get(&key).is_none() {
        w.vm.fund(key, 1_000_000_000_000);
    }
    key
}

fn run_as(w: &mut World1, what: &str, ix: Instruction) -> Result<(), String> {
    w.process(&ix).map_err(|e| format!("c19x prep: {what} failed: {e:?}"))
}

fn ix(program_id: Pubkey, accounts: impl ToAccountMetas, data: impl InstructionData) -> Instruction {
    Instruction { program_id, accounts: accounts.to_account_metas(None), data: data.data() }
}

// ------------------------------------------------------------------------------------ competition
mod comp {
    use super::*;
    use gmsol_competition::accounts as ca;
    use gmsol_competition::instruction as ci;
    use gmsol_competition::states::{COMPETITION_SEED, PARTICIPANT_SEED};
    pub const ID: Pubkey = gmsol_competition::ID;

    pub fn competition(payer: &Pubkey, start: i64) -> Pubkey {
        Pubkey::find_program_address(&[COMPETITION_SEED, payer.as_ref(), &start.to_le_bytes()], &ID).0
    }
    pub fn participant(competition: &Pubkey, trader: &Pubkey) -> Pubkey {
        Pubkey::find_program_address(&[PARTICIPANT_SEED, competition.as_ref(), trader.as_ref()], &ID).0
    }
    pub fn ix_initialize(payer: Pubkey, start: i64, end: i64) -> Instruction {
        ix(
            ID,
            ca::InitializeCompetition { payer, competition: competition(&payer, start), system_program: system_program::ID },
            ci::InitializeCompetition { start_time: start, end_time: end, volume_threshold: 1000, extension_duration: 10, extension_cap: 20, only_count_increase: false, volume_merge_window: 5 },
        )
    }
    pub fn ix_create_participant(payer: Pubkey, competition: Pubkey, trader: Pubkey) -> Instruction {
        ix(
            ID,
            ca::CreateParticipantIdempotent { payer, competition, participant: participant(&competition, &trader), trader, system_program: system_program::ID },
            ci::CreateParticipantIdempotent {},
        )
    }
    /// A competition that is running now, with a participant for `trader`.
    pub fn setup(w: &mut World1, trader: Pubkey) -> Result<Pubkey, String> {
        let now = svm::sysvars().unix_timestamp;
        let start = now + 10;
        run_as(w, "initialize_competition", ix_initialize(w.k.admin, start, start + 1000))?;
        let c = competition(&w.k.admin, start);
        run_as(w, "create_participant_idempotent", ix_create_participant(w.k.admin, c, trader))?;
        let mut s = svm::sysvars();
        s.unix_timestamp = start + 1;
        svm::set_sysvars(s);
        Ok(c)
    }
    pub fn callback_authority() -> (Pubkey, u8) {
        Pubkey::find_program_address(&[gmsol_callback::CALLBACK_AUTHORITY_SEED], &gmsol_store::ID)
    }

    pub fn table() -> Vec<Entry> {
        let e = |name, auth, build| Entry { program: "competition", name, auth, expect: Expect::Ok, build };
        // "The callback-authority PDA (must be a signer)": only the store program can sign for it
        let cb = || Auth::Key(vec![codes::CONSTRAINT_SEEDS]);
        vec![
            e("initialize_competition", Auth::Permissionless, |_w, s, _a, r| {
                let start = svm::sysvars().unix_timestamp + 1 + r.below(1000) as i64;
                Ok(ix_initialize(s, start, start + 1 + r.below(100_000) as i64))
            }),
            e("create_participant_idempotent", Auth::Permissionless, |w, s, _a, _r| {
                let c = setup(w, other("trader"))?;
                Ok(ix_create_participant(s, c, other("trader-2")))
            }),
            e("on_created", cb(), |w, s, a, _r| {
                let trader = other("trader");
                let c = setup(w, trader)?;
                let (pda, bump) = callback_authority();
                Ok(ix(
                    ID,
                    ca::OnCreated { authority: if a { pda } else { s }, competition: c, participant: participant(&c, &trader), trader, action: other("action") },
                    ci::OnCreated { authority_bump: bump, action_kind: gmsol_callback::interface::ActionKind::Order as u8, callback_version: 0, extra_account_count: 0 },
                ))
            }),
            e("on_updated", cb(), |w, s, a, _r| {
                let trader = other("trader");
                let c = setup(w, trader)?;
                let (pda, bump) = callback_authority();
                Ok(ix(
                    ID,
                    ca::OnCallback { authority: if a { pda } else { s }, competition: c, participant: participant(&c, &trader), trader, action: other("action") },
                    ci::OnUpdated { _authority_bump: bump, _action_kind: gmsol_callback::interface::ActionKind::Order as u8, _callback_version: 0, _extra_account_count: 0 },
                ))
            }),
            e("on_executed", cb(), |w, s, a, r| {
                let trader = other("trader");
                let c = setup(w, trader)?;
                let (pda, bump) = callback_authority();
                Ok(ix(
                    ID,
                    ca::OnExecuted { authority: if a { pda } else { s }, competition: c, participant: participant(&c, &trader), trader, action: other("action"), position: other("position"), trade_event: None },
                    ci::OnExecuted { authority_bump: bump, action_kind: gmsol_callback::interface::ActionKind::Order as u8, callback_version: 0, success: r.bool(), extra_account_count: 2 },
                ))
            }),
            e("on_closed", cb(), |w, s, a, _r| {
                let trader = other("trader");
                let c = setup(w, trader)?;
                let (pda, bump) = callback_authority();
                Ok(ix(
                    ID,
                    ca::OnCallback { authority: if a { pda } else { s }, competition: c, participant: participant(&c, &trader), trader, action: other("action") },
                    ci::OnClosed { _authority_bump: bump, _action_kind: gmsol_callback::interface::ActionKind::Order as u8, _callback_version: 0, _extra_account_count: 0 },
                ))
            }),
            // "The trader that owns the participant account."
            e("close_participant", Auth::Key(vec![codes::CONSTRAINT_SEEDS, codes::CONSTRAINT_HAS_ONE]), |w, s, a, _r| {
                let trader = if a { s } else { fund(w, other("trader")) };
                let c = setup(w, trader)?;
                // after the end of the competition
                let mut sys = svm::sysvars();
                sys.unix_timestamp += 5000;
                svm::set_sysvars(sys);
                Ok(ix(ID, ca::CloseParticipant { trader: s, competition: c, participant: participant(&c, &trader) }, ci::CloseParticipant {}))
            }),
        ]
    }
}

// ------------------------------------------------------------------------------------ liquidity provider (admin)
mod lp {
    use super::*;
    use gmsol_liquidity_provider::accounts as la;
    use gmsol_liquidity_provider::instruction as li;
    pub const ID: Pubkey = gmsol_liquidity_provider::ID;

    pub fn global_state() -> Pubkey {
        Pubkey::find_program_address(&[b"global_state"], &ID).0
    }
    pub fn ix_initialize(authority: Pubkey) -> Instruction {
        ix(ID, la::Initialize { global_state: global_state(), authority, system_program: system_program::ID }, li::Initialize { min_stake_value: 1000, initial_apy: 1_000_000_000_000_000_000 })
    }
    /// Global state whose authority is `authority`.
    pub fn setup(w: &mut World1, authority: Pubkey) -> Result<(), String> {
        fund(w, authority);
        run_as(w, "lp initialize", ix_initialize(authority))
    }
    fn owner(w: &mut World1, s: Pubkey, a: bool) -> Pubkey {
        if a {
            s
        } else {
            fund(w, other("lp-authority"))
        }
    }
    pub fn controller(mint: &Pubkey, index: u64) -> Pubkey {
        Pubkey::find_program_address(&[b"lp_token_controller", global_state().as_ref(), mint.as_ref(), &index.to_le_bytes()], &ID).0
    }

    pub fn table() -> Vec<Entry> {
        let e = |name, auth, build| Entry { program: "liquidity-provider", name, auth, expect: Expect::Ok, build };
        // `has_one = authority` on the global state
        let adm = || Auth::Key(vec![codes::CONSTRAINT_HAS_ONE]);
        vec![
            e("initialize", Auth::Permissionless, |_w, s, _a, _r| Ok(ix_initialize(s))),
            e("set_claim_enabled", adm(), |w, s, a, r| {
                let o = owner(w, s, a);
                setup(w, o)?;
                Ok(ix(ID, la::SetClaimEnabled { global_state: global_state(), authority: s }, li::SetClaimEnabled { enabled: r.bool() }))
            }),
            e("set_pricing_staleness", adm(), |w, s, a, r| {
                let o = owner(w, s, a);
                setup(w, o)?;
                Ok(ix(ID, la::SetPricingStaleness { global_state: global_state(), authority: s }, li::SetPricingStaleness { staleness_seconds: r.next() as u32 }))
            }),
            e("update_apy_gradient_sparse", adm(), |w, s, a, r| {
                let o = owner(w, s, a);
                setup(w, o)?;
                Ok(ix(ID, la::UpdateApyGradient { global_state: global_state(), authority: s }, li::UpdateApyGradientSparse { bucket_indices: vec![0, r.below(50) as u8], apy_values: vec![1, 2] }))
            }),
            e("update_apy_gradient_range", adm(), |w, s, a, _r| {
                let o = owner(w, s, a);
                setup(w, o)?;
                Ok(ix(ID, la::UpdateApyGradient { global_state: global_state(), authority: s }, li::UpdateApyGradientRange { start_bucket: 1, end_bucket: 3, apy_values: vec![1, 2, 3] }))
            }),
            e("update_min_stake_value", adm(), |w, s, a, r| {
                let o = owner(w, s, a);
                setup(w, o)?;
                Ok(ix(ID, la::UpdateMinStakeValue { global_state: global_state(), authority: s }, li::UpdateMinStakeValue { new_min_stake_value: r.u128() }))
            }),
            e("transfer_authority", adm(), |w, s, a, _r| {
                let o = owner(w, s, a);
                setup(w, o)?;
                Ok(ix(ID, la::TransferAuthority { global_state: global_state(), authority: s }, li::TransferAuthority { new_authority: other("lp-next") }))
            }),
            e("accept_authority", adm(), |w, s, a, _r| {
                let o = fund(w, other("lp-authority"));
                setup(w, o)?;
                let next = if a { s } else { other("lp-next") };
                run_as(w, "transfer_authority", ix(ID, la::TransferAuthority { global_state: global_state(), authority: o }, li::TransferAuthority { new_authority: next }))?;
                Ok(ix(ID, la::AcceptAuthority { global_state: global_state(), pending_authority: s }, li::AcceptAuthority {}))
            }),
            e("create_lp_token_controller", adm(), |w, s, a, r| {
                let o = owner(w, s, a);
                setup(w, o)?;
                let mint = w.k.markets[r.below(3)].market_token;
                let index = r.below(3) as u64;
                Ok(ix(
                    ID,
                    la::CreateLpTokenController { global_state: global_state(), controller: controller(&mint, index), authority: s, system_program: system_program::ID },
                    li::CreateLpTokenController { lp_token_mint: mint, controller_index: index },
                ))
            }),
        ]
    }
}

// ------------------------------------------------------------------------------------ treasury (config part)
mod tr {
    use super::*;
    use gmsol_treasury::accounts as ta;
    use gmsol_treasury::instruction as ti;
    use gmsol_treasury::roles;
    pub const ID: Pubkey = gmsol_treasury::ID;

    pub fn config(store: &Pubkey) -> Pubkey {
        Pubkey::find_program_address(&[b"config", store.as_ref()], &ID).0
    }
    pub fn receiver(config: &Pubkey) -> Pubkey {
        Pubkey::find_program_address(&[b"receiver", config.as_ref()], &ID).0
    }
    pub fn vault_config(config: &Pubkey, index: u16) -> Pubkey {
        Pubkey::find_program_address(&[b"treasury_vault_config", config.as_ref(), &index.to_le_bytes()], &ID).0
    }
    pub fn ix_initialize_config(w: &World1, payer: Pubkey) -> Instruction {
        let c = config(&w.k.store);
        ix(
            ID,
            ta::InitializeConfig { payer, store: w.k.store, config: c, receiver: receiver(&c), store_program: gmsol_store::ID, system_program: system_program::ID },
            ti::InitializeConfig {},
        )
    }
    /// Enable the treasury roles, hand the store's receiver to the treasury and create the config.
    pub fn setup(w: &mut World1, with_config: bool) -> Result<Pubkey, String> {
        let c = config(&w.k.store);
        for r in [roles::TREASURY_OWNER, roles::TREASURY_ADMIN, roles::TREASURY_KEEPER, roles::TREASURY_WITHDRAWER] {
            // may already be enabled by the runner (it grants the required role before the build)
            let _ = w.process(&w.k.ix_enable_role(w.k.admin, r));
        }
        run_as(w, "transfer_receiver", w.k.ix_transfer_receiver(w.k.receiver, receiver(&c)))?;
        if with_config {
            run_as(w, "treasury initialize_config", ix_initialize_config(w, w.k.admin))?;
        }
        Ok(c)
    }
    pub fn grant(w: &mut World1, who: Pubkey, role: &str) -> Result<(), String> {
        run_as(w, "grant treasury role", w.k.ix_grant_role(w.k.admin, who, role))
    }
    fn admin_key(w: &mut World1) -> Result<Pubkey, String> {
        let k = fund(w, other("treasury-admin"));
        grant(w, k, roles::TREASURY_ADMIN)?;
        Ok(k)
    }
    fn ix_init_vault_config(w: &World1, authority: Pubkey, c: Pubkey, index: u16) -> Instruction {
        ix(
            ID,
            ta::InitializeTreasuryVaultConfig { authority, store: w.k.store, config: c, treasury_vault_config: vault_config(&c, index), store_program: gmsol_store::ID, system_program: system_program::ID },
            ti::InitializeTreasuryVaultConfig { index },
        )
    }
    fn ix_insert_token(w: &World1, authority: Pubkey, c: Pubkey, index: u16, token: Pubkey) -> Instruction {
        ix(
            ID,
            ta::InsertTokenToTreasuryVault { authority, store: w.k.store, config: c, treasury_vault_config: vault_config(&c, index), token, store_program: gmsol_store::ID },
            ti::InsertTokenToTreasuryVault {},
        )
    }
    fn ix_set_vault_config(w: &World1, authority: Pubkey, c: Pubkey, index: u16) -> Instruction {
        ix(
            ID,
            ta::SetTreasuryVaultConfig { authority, store: w.k.store, config: c, treasury_vault_config: vault_config(&c, index), store_program: gmsol_store::ID },
            ti::SetTreasuryVaultConfig {},
        )
    }

    pub fn table() -> Vec<Entry> {
        let e = |name, auth, build| Entry { program: "treasury", name, auth, expect: Expect::Ok, build };
        vec![
            // no attribute: anyone may create the config once the store's receiver was handed to the treasury PDA
            e("initialize_config", Auth::Permissionless, |w, s, _a, _r| {
                setup(w, false)?;
                Ok(ix_initialize_config(w, s))
            }),
            e("set_gt_factor", Auth::Role(roles::TREASURY_ADMIN), |w, s, _a, r| {
                let c = setup(w, true)?;
                Ok(ix(ID, ta::UpdateConfig { authority: s, store: w.k.store, config: c, store_program: gmsol_store::ID }, ti::SetGtFactor { factor: (1 + r.below(1000) as u128) * crate::world1::USD / 1000 }))
            }),
            e("set_buyback_factor", Auth::Role(roles::TREASURY_ADMIN), |w, s, _a, r| {
                let c = setup(w, true)?;
                Ok(ix(ID, ta::UpdateConfig { authority: s, store: w.k.store, config: c, store_program: gmsol_store::ID }, ti::SetBuybackFactor { factor: (1 + r.below(1000) as u128) * crate::world1::USD / 1000 }))
            }),
            e("initialize_treasury_vault_config", Auth::Role(roles::TREASURY_ADMIN), |w, s, _a, r| {
                let c = setup(w, true)?;
                Ok(ix_init_vault_config(w, s, c, r.below(4) as u16))
            }),
            e("set_treasury_vault_config", Auth::Role(roles::TREASURY_ADMIN), |w, s, _a, _r| {
                let c = setup(w, true)?;
                let adm = admin_key(w)?;
                run_as(w, "initialize_treasury_vault_config", ix_init_vault_config(w, adm, c, 1))?;
                Ok(ix_set_vault_config(w, s, c, 1))
            }),
            e("insert_token_to_treasury_vault", Auth::Role(roles::TREASURY_ADMIN), |w, s, _a, r| {
                let c = setup(w, true)?;
                let adm = admin_key(w)?;
                run_as(w, "initialize_treasury_vault_config", ix_init_vault_config(w, adm, c, 1))?;
                Ok(ix_insert_token(w, s, c, 1, if r.bool() { w.k.long_mint } else { w.k.short_mint }))
            }),
            e("remove_token_from_treasury_vault", Auth::Role(roles::TREASURY_ADMIN), |w, s, _a, _r| {
                let c = setup(w, true)?;
                let adm = admin_key(w)?;
                run_as(w, "initialize_treasury_vault_config", ix_init_vault_config(w, adm, c, 1))?;
                run_as(w, "insert_token_to_treasury_vault", ix_insert_token(w, adm, c, 1, w.k.long_mint))?;
                Ok(ix(
                    ID,
                    ta::RemoveTokenFromTreasuryVault { authority: s, store: w.k.store, config: c, treasury_vault_config: vault_config(&c, 1), token: w.k.long_mint, store_program: gmsol_store::ID },
                    ti::RemoveTokenFromTreasuryVault {},
                ))
            }),
            e("toggle_token_flag", Auth::Role(roles::TREASURY_ADMIN), |w, s, _a, r| {
                let c = setup(w, true)?;
                let adm = admin_key(w)?;
                run_as(w, "initialize_treasury_vault_config", ix_init_vault_config(w, adm, c, 1))?;
                run_as(w, "insert_token_to_treasury_vault", ix_insert_token(w, adm, c, 1, w.k.long_mint))?;
                Ok(ix(
                    ID,
                    ta::ToggleTokenFlag { authority: s, store: w.k.store, config: c, treasury_vault_config: vault_config(&c, 1), token: w.k.long_mint, store_program: gmsol_store::ID },
                    ti::ToggleTokenFlag { flag: ["allow_deposit", "allow_withdrawal"][r.below(2)].to_string(), value: true },
                ))
            }),
            e("transfer_receiver", Auth::Role(roles::TREASURY_OWNER), |w, s, _a, _r| {
                let c = setup(w, true)?;
                Ok(ix(
                    ID,
                    ta::TransferReceiver { authority: s, store: w.k.store, config: c, receiver: receiver(&c), next_receiver: other("next-receiver"), store_program: gmsol_store::ID, system_program: system_program::ID },
                    ti::TransferReceiver {},
                ))
            }),
        ]
    }
}

pub fn table() -> Vec<Entry> {
    let mut t = comp::table();
    t.extend(lp::table());
    t.extend(tr::table());
    t
}

/// Role universe used for the "wrong role" callers of treasury entries is the store's `ROLES`; the
/// treasury roles themselves are enabled by `tr::setup` inside each build.
pub const _NOTE: &str = "";

#[allow(dead_code)]
fn _unused(_: CoreError) {}
