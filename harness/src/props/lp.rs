//! History-based checks on liquidity and token accounting: C06 (LP round trip), C08 (token
//! ledger and funding residual), C10 (open-then-close is not profitable).

use crate::engine::{Ctx, Rec};
use crate::mgen::*;
use crate::props::perp::position_heavy;
use crate::refmath::*;
use gmsol_model::{LiquidityMarketExt, PnlFactorKind};
use num_bigint::BigInt;
use num_traits::{Signed, Zero};
use proptest::prelude::*;
use serde::{Deserialize, Serialize};

// ------------------------------------------------------------------------------------------ C06

#[derive(Debug, Clone, Serialize, Deserialize)]
pub struct RoundTrip {
    pub history: History,
    pub deposit: (u128, u128),
}

fn round_trip_case() -> impl Strategy<Value = RoundTrip> {
    let amounts = (prop_oneof![3 => 10u128.pow(7)..=10u128.pow(12), 1 => 1u128..=10_000, 1 => Just(0u128)], prop_oneof![3 => 10u128.pow(4)..=10u128.pow(11), 1 => 1u128..=10_000, 1 => Just(0u128)], 0u8..3)
        .prop_map(|(l, s, which)| match which {
            0 => (l.max(1), 0),
            1 => (0, s.max(1)),
            _ => (l.max(1), s.max(1)),
        });
    (prop_oneof![2 => position_heavy(12).boxed(), 2 => history_strategy(10).boxed(), 1 => history_strategy(0).prop_map(|mut h| { h.seed_liquidity = (0, 0); h }).boxed()], amounts)
        .prop_map(|(history, deposit)| RoundTrip { history, deposit })
}

fn value_per_token(w: &World, kind: PnlFactorKind, maximize: bool) -> Result<(BigInt, BigInt), String> {
    let v = w.market.pool_value(&w.prices(), kind, maximize).map_err(|e| e.to_string())?;
    Ok((b(v), b(w.market.total_supply)))
}

fn check_round_trip(c: &RoundTrip, rec: &mut Rec, kf_open: bool, kf2_open: bool) -> Result<(), String> {
    let mut w = World::start(&c.history);
    for op in &c.history.ops {
        let _ = w.apply(op);
    }
    // settle fee state so that the two legs see no elapsed time
    let _ = w.apply(&Op::UpdateFees);
    let p = w.prices;
    let empty = w.market.total_supply == 0 && w.market.primary.long_amount == 0 && w.market.primary.short_amount == 0;
    let before_dep = value_per_token(&w, PnlFactorKind::MaxAfterDeposit, true);
    // KF-C06-2: all market tokens were withdrawn but fees/dust stayed in the pool: the next depositor
    // is credited the orphaned value (the program avoids this state only when
    // min_tokens_for_first_deposit is configured).
    let orphaned = match &before_dep {
        Ok((v, s)) if s.is_zero() && v.is_positive() => Some(v.clone()),
        _ => None,
    };
    let pools_before = (w.market.primary, w.market.swap_impact);
    let out = w.apply(&Op::Deposit { long: c.deposit.0, short: c.deposit.1 });
    let Outcome::Deposit(report) = out else {
        rec.class("deposit_failed");
        return Ok(());
    };
    let minted = *report.minted();
    let impact = *report.price_impact();
    rec.class(if impact > 0 { "deposit_positive_impact" } else if impact < 0 { "deposit_negative_impact" } else { "deposit_zero_impact" });
    let divisor = b(w.market.config.value_to_amount_divisor);
    if empty {
        rec.class("first_deposit");
        // one USD per market token: minted*divisor within one divisor below the net value credited
        let dl = b(w.market.primary.long_amount) - b(pools_before.0.long_amount) - b(*report.long_token_fees().fee_amount_for_pool());
        let ds = b(w.market.primary.short_amount) - b(pools_before.0.short_amount) - b(*report.short_token_fees().fee_amount_for_pool());
        let net_value = dl * b(p.long.0) + ds * b(p.short.0);
        let minted_value = b(minted) * &divisor;
        if minted_value > net_value || &net_value - &minted_value >= &divisor * b(2u8) {
            return Err(format!("first deposit: minted {minted} tokens (= {minted_value} USD units) for a net value of {net_value}"));
        }
    } else if let (Ok((v0, s0)), Ok((v1, s1))) = (before_dep, value_per_token(&w, PnlFactorKind::MaxAfterDeposit, true)) {
        // (b) the deposit leg does not lower the value of one market token (its own valuation)
        if s0.is_positive() && v0.is_positive() && &v1 * &s0 + (&s0 + &s1) * b(1000u32) < &v0 * &s1 {
            return Err(format!("deposit lowered the market token value: {v0}/{s0} -> {v1}/{s1}"));
        }
    }
    if minted == 0 {
        rec.class("minted_zero");
        return Ok(());
    }
    // withdraw exactly the minted amount, same prices, no elapsed time
    let before_wd = value_per_token(&w, PnlFactorKind::MaxAfterWithdrawal, false);
    let total = w.market.total_supply;
    let saved = w.clone();
    use gmsol_model::{LiquidityMarketMutExt, MarketAction};
    let r = w.market.withdraw(minted, w.prices()).and_then(|a| a.execute());
    let report_w = match r {
        Ok(r) => r,
        Err(_) => {
            w = saved;
            let _ = &w;
            rec.class("withdrawal_failed");
            return Ok(());
        }
    };
    let _ = total;
    if let (Ok((v0, s0)), Ok((v1, s1))) = (before_wd, value_per_token(&w, PnlFactorKind::MaxAfterWithdrawal, false)) {
        if s1.is_positive() && v0.is_positive() && &v1 * &s0 + (&s0 + &s1) * b(1000u32) < &v0 * &s1 {
            return Err(format!("withdrawal lowered the market token value for the remaining holders: {v0}/{s0} -> {v1}/{s1}"));
        }
    }
    // (c) round trip value at max prices
    let value_in = b(c.deposit.0) * b(p.long.1) + b(c.deposit.1) * b(p.short.1);
    let value_out = b(*report_w.long_token_output()) * b(p.long.1) + b(*report_w.short_token_output()) * b(p.short.1);
    let slack = (b(p.long.1) + b(p.short.1)) * b(4u8);
    rec.nontrivial_if(!empty);
    rec.class("round_trip_done");
    if let Some(orphan) = &orphaned {
        rec.class("orphaned_pool_value");
        if value_out > &value_in + &slack {
            if kf2_open {
                rec.excluded("KF-C06-2");
                if value_out > &value_in + orphan * b(2u8) + &slack {
                    return Err(format!("round trip into a pool without holders returned {value_out} for {value_in}: more than the orphaned pool value {orphan}"));
                }
                return Ok(());
            }
            return Err(format!("deposit into a pool with zero supply but value {orphan} and immediate withdrawal returned {value_out} for {value_in}"));
        }
    }
    if value_out > &value_in + &slack {
        let credited = if impact > 0 { b(impact) } else { zero() };
        if impact > 0 && kf_open {
            rec.excluded("KF-C06-1");
            // tightened bound inside the excluded class: profit never exceeds the impact credited
            // (valued at max price; allow the spread of the credited amount)
            let spread_allowance = &credited * (b(p.long.1) + b(p.short.1)) / (b(p.long.0.min(p.short.0)).max(b(1u8))) / b(1u8);
            let _ = spread_allowance;
            if value_out > &value_in + &credited * b(2u8) + &slack {
                return Err(format!("round trip profit {} exceeds twice the positive impact credited {credited}", &value_out - &value_in));
            }
        } else {
            return Err(format!("deposit of value {value_in} and immediate withdrawal returned {value_out} (deposit price impact {impact})"));
        }
    }
    Ok(())
}

pub fn run_c06(ctx: &mut Ctx) {
    ctx.rule("cases = market state reached by a generated history (deposits, withdrawals, swaps, positions with pnl and pending fees; or an empty market), then a deposit on the long / short / both sides and an immediate withdrawal of exactly the minted tokens at the same prices with no elapsed time; oracle = first deposit into an empty market: minted*divisor within two divisors below the net value credited at min prices; each leg does not lower pool_value/supply under the valuation that leg itself uses; value out (max prices) <= value in (max prices) + 4 base units; non-trivial = round trip completed on a non-empty pool");
    let kf = ctx.finding_open("KF-C06-1");
    {
        // witness: zero swap fees, three deposits, the last one earns positive impact
        let mut cfg = CfgSpec::default();
        cfg.swap_fee = (0, 0, 0);
        let prices = PricesSpec::flat(12_000_000_000_000, 12_000_000_000_000, 100_000_000_000_000);
        let h = History { cfg, prices, seed_liquidity: (3_000_000_000, 0), ops: vec![] };
        let w = RoundTrip { history: h, deposit: (0, 300_000_000) };
        let mut rec = Rec::default();
        let r = check_round_trip(&w, &mut rec, false, true);
        ctx.known_witness("KF-C06-1", r.is_err(), "a deposit that earns positive swap impact (pool long-only 3e9 units = 360 USD, deposit 3e8 short units = 300 USD, zero swap fees) followed by withdrawing the minted tokens returns more value than deposited: withdrawals carry no price impact, so the credited impact is extracted");
    }
    let kf2 = ctx.finding_open("KF-C06-2");
    {
        let h = History {
            cfg: CfgSpec::default(),
            prices: PricesSpec::flat(2_000_000_000_000, 2_000_000_000_000, 98_000_000_000_000),
            seed_liquidity: (100_000_000_000, 10_000_000_000),
            ops: vec![Op::Deposit { long: 454_821_883_937, short: 0 }, Op::Withdraw { bp: 10_000 }],
        };
        let w = RoundTrip { history: h, deposit: (10_000_000, 0) };
        let mut rec = Rec::default();
        let r = check_round_trip(&w, &mut rec, true, false);
        ctx.known_witness("KF-C06-2", r.is_err(), "after every market token has been withdrawn the fees left in the pool belong to nobody; the next deposit (1e7 long) is minted against pool value + deposit and can be withdrawn at once for ~47x its value (prevented on-chain only if min_tokens_for_first_deposit is configured)");
    }
    let n = ctx.cases(60_000, 3_000_000);
    ctx.search("round_trip", n, round_trip_case, move |c, rec| check_round_trip(c, rec, kf, kf2));
    ctx.floor("round_trip:round_trip_done", 10_000);
    ctx.floor("round_trip:first_deposit", 1_500);
}

// ------------------------------------------------------------------------------------------ C10

#[derive(Debug, Clone, Serialize, Deserialize)]
pub struct OpenClose {
    pub history: History,
    pub pos: u8,
    pub collateral: u128,
    pub leverage: u128,
    /// A large position opened by somebody else just before (slot, percent of the reserving pool side,
    /// leverage): skews the open interest and funds the position impact pool with its negative impact.
    pub skew: Option<(u8, u8, u8)>,
    /// Size of the fresh position in percent of the reserving pool side (0 = use `collateral` as is).
    pub size_pct: u8,
    /// Frictionless variant: no order fees, no position price impact, no price spreads and a synthetic
    /// index token whose unit price is `index_unit_ratio` times the generated one (few-decimals index):
    /// nothing but rounding separates the value returned from the value deposited, so a rounding step in
    /// the trader's favour is not masked by fees.
    pub frictionless: Option<u32>,
}

fn open_close_case() -> impl Strategy<Value = OpenClose> {
    (
        position_heavy(10),
        0u8..NUM_POSITIONS as u8,
        prop_oneof![4 => 10u128.pow(6)..=10u128.pow(10), 1 => 10u128.pow(10)..=10u128.pow(11)],
        1u128..=80,
        prop_oneof![1 => Just(None), 2 => (0u8..NUM_POSITIONS as u8, 1u8..=40, 1u8..=30).prop_map(Some)],
        prop_oneof![1 => Just(0u8), 2 => 1u8..=30],
        prop_oneof![5 => Just(None), 1 => (1u32..=100_000).prop_map(Some)],
    )
        .prop_map(|(history, pos, collateral, leverage, skew, size_pct, frictionless)| OpenClose { history, pos, collateral, leverage, skew, size_pct, frictionless })
}

/// Collateral amount such that collateral value x leverage = `pct` percent of the pool side that reserves
/// for positions of side `is_long`.
fn collateral_for_share(w: &World, is_long: bool, coll_long: bool, pct: u128, leverage: u128) -> u128 {
    let p = w.prices;
    let side_value = if is_long { w.market.primary.long_amount.saturating_mul(p.long.0) } else { w.market.primary.short_amount.saturating_mul(p.short.0) };
    let price = if coll_long { p.long.0 } else { p.short.0 };
    (side_value / 100 * pct / leverage.max(1) / price.max(1)).max(1)
}

fn check_open_close(c: &OpenClose, rec: &mut Rec, kf_open: bool) -> Result<(), String> {
    let frictionless_history;
    let c = if let Some(ratio) = c.frictionless {
        let mut h = c.history.clone();
        h.cfg.order_fee = (0, 0, 0);
        h.cfg.position_impact = (h.cfg.position_impact.0, 0, 0);
        let mid = |p: (u128, u128)| (p.0, p.0);
        let index_mid = h.prices.index.0.saturating_mul(ratio as u128).min(10u128.pow(19));
        h.prices = PricesSpec { index: (index_mid, index_mid), long: mid(h.prices.long), short: mid(h.prices.short) };
        // the history itself must not move prices apart again
        h.ops.retain(|op| !matches!(op, Op::MovePrice { .. }));
        rec.class("frictionless");
        frictionless_history = OpenClose { history: h, ..c.clone() };
        &frictionless_history
    } else {
        c
    };
    let mut w = World::start(&c.history);
    for op in &c.history.ops {
        let _ = w.apply(op);
    }
    let _ = w.apply(&Op::UpdateFees);
    if let Some((spos, pct, lev)) = c.skew {
        let sslot = spos as usize % NUM_POSITIONS;
        let (sl, scl) = position_sides(sslot);
        let mut coll = collateral_for_share(&w, sl, scl, pct as u128, lev as u128);
        // construction instead of rejection: shrink until the market accepts it
        let mut done = false;
        for _ in 0..6 {
            if matches!(w.apply(&Op::Increase { pos: sslot as u8, collateral: coll, size_usd: lev as u128 }), Outcome::Increase { .. }) {
                done = true;
                break;
            }
            coll = coll / 3 + 1;
        }
        rec.class_if(done, "skewing_position_opened");
    }
    // find an empty position slot starting from the requested one
    let Some(slot) = (0..NUM_POSITIONS).map(|k| (c.pos as usize + k) % NUM_POSITIONS).find(|i| w.positions[*i].size_in_usd == 0 && w.positions[*i].collateral_token_amount == 0) else {
        rec.class("no_empty_slot");
        return Ok(());
    };
    let (is_long, coll_long) = position_sides(slot);
    let p = w.prices;
    // keep the position within the pool side that has to reserve for it, so that most opens pass the
    // reserve / open-interest validations (deterministic function of the case)
    let mut leverage = c.leverage.max(1);
    let mut collateral = if c.size_pct > 0 {
        collateral_for_share(&w, is_long, coll_long, c.size_pct as u128, leverage)
    } else {
        let raw = if coll_long { c.collateral } else { c.collateral / 5 + 1 };
        raw.min(collateral_for_share(&w, is_long, coll_long, 2, leverage))
    };
    // construction instead of rejection: a refused open (nothing is committed by a refused operation) is
    // retried with a smaller size or a lower leverage, up to 6 times
    let mut out = w.apply(&Op::Increase { pos: slot as u8, collateral, size_usd: leverage });
    for _ in 0..6 {
        let Outcome::Failed { error, .. } = &out else { break };
        if error.contains("iquidatable") || error.contains("insufficient collateral") {
            if leverage > 1 {
                leverage = leverage / 2;
            } else {
                collateral = collateral.saturating_mul(8);
            }
        } else {
            collateral = collateral / 4 + 1;
        }
        rec.class("open_retried");
        out = w.apply(&Op::Increase { pos: slot as u8, collateral, size_usd: leverage });
    }
    let inc = match out {
        Outcome::Increase { report, .. } => report,
        Outcome::Failed { error, .. } => {
            rec.class("open_failed");
            rec.class(if error.contains("reserve") {
                "open_failed:reserve"
            } else if error.contains("iquidatable") {
                "open_failed:liquidatable"
            } else if error.contains("open interest") {
                "open_failed:max_open_interest"
            } else if error.contains("size in usd too small") {
                "open_failed:too_small"
            } else {
                if std::env::var("VERIF_DEBUG_ERR").is_ok() {
                    eprintln!("open failed: {error}");
                }
                "open_failed:other"
            });
            return Ok(());
        }
        _ => {
            rec.class("open_failed");
            return Ok(());
        }
    };
    let open_impact = *inc.execution().price_impact_value();
    let (cf_l, cf_s) = inc.claimable_funding_amounts();
    if *cf_l != 0 || *cf_s != 0 {
        return Err("a fresh position received claimable funding".into());
    }
    let out = w.apply(&Op::Decrease { pos: slot as u8, size_bp: 10_000, withdraw_bp: 0, cap: false, swap: 0, insolvent_ok: false });
    let Outcome::Decrease { report: dec, .. } = out else {
        rec.class("close_failed");
        return Ok(());
    };
    if !dec.should_remove() {
        return Err("a full close left the position open".into());
    }
    let close_impact = *dec.price_impact_value();
    rec.class_if(open_impact != 0 || close_impact != 0, "non_zero_impact");
    rec.class_if(*dec.price_impact_diff() != 0, "negative_impact_capped");
    // value received, per token
    let mut long_amt = BigInt::zero();
    let mut short_amt = BigInt::zero();
    let mut add = |is_long_token: bool, x: u128| if is_long_token { long_amt += b(x) } else { short_amt += b(x) };
    add(dec.is_output_token_long(), *dec.output_amount());
    add(dec.is_secondary_output_token_long(), *dec.secondary_output_amount());
    let (fl, fs) = dec.claimable_funding_amounts();
    add(true, *fl);
    add(false, *fs);
    for cc in [dec.claimable_collateral_for_user(), dec.claimable_collateral_for_holding()] {
        add(dec.is_output_token_long(), *cc.output_token_amount());
        add(dec.is_secondary_output_token_long(), *cc.secondary_output_token_amount());
    }
    let (pc, pother) = if coll_long { (p.long, p.short) } else { (p.short, p.long) };
    let (coll_amt, other_amt) = if coll_long { (long_amt, short_amt) } else { (short_amt, long_amt) };
    let deposited_value = b(collateral) * b(pc.0);
    let received_value = &coll_amt * b(pc.0) + &other_amt * b(pother.1);
    let slack = (b(pc.0) + b(pother.1)) * b(2u8);
    rec.class(if is_long { "long" } else { "short" });
    rec.class_if(is_long != coll_long, "pnl_token_differs_from_collateral");
    rec.nontrivial_if(open_impact != 0 || close_impact != 0);
    let cfg = &c.history.cfg;
    if received_value > &deposited_value + &slack && cfg.max_positive_position_impact_factor > cfg.max_negative_position_impact_factor && kf_open {
        // KF-C10-1: nothing forces max positive impact factor <= max negative impact factor; the
        // capped part of the closing leg's negative impact is credited back as claimable collateral.
        rec.excluded("KF-C10-1");
        let credited = if open_impact > 0 { b(open_impact) } else { zero() };
        if received_value > &deposited_value + &credited + &slack {
            return Err(format!("open+close profit {} exceeds the positive impact {credited} credited on the opening leg", &received_value - &deposited_value));
        }
        return Ok(());
    }
    if received_value > &deposited_value + &slack {
        return Err(format!(
            "open+close returned value {received_value} for a deposit worth {deposited_value} (collateral {collateral}, received collateral-token {coll_amt}, other-token {other_amt}; impacts open {open_impact} close {close_impact}, impact diff {})",
            dec.price_impact_diff()
        ));
    }
    Ok(())
}

pub fn run_c10(ctx: &mut Ctx) {
    ctx.rule("cases = market state reached by a generated position-heavy history (other positions open, funded or empty position impact pool, fee/impact/cap settings incl. max positive impact factor above the max negative one), optionally a large skewing position opened by somebody else (1..40 % of the reserving pool side), then a fresh position (side, collateral token, size = collateral value x leverage 1..80, either a generated amount or 1..30 % of the reserving pool side; a refused open is retried smaller / with lower leverage; one case in six is frictionless: zero order fees, zero position impact, no spreads and an index unit price up to 1e5 times larger, so that only rounding separates the two values) opened and fully closed at the same prices with no elapsed time and no swap of the output; oracle = value received (output, secondary output, claimable funding, claimable collateral for user and holding; collateral-token amounts at p_collateral.min, other-token amounts at that token's max price) <= collateral deposited at p_collateral.min + 2 base units per token; non-trivial = non-zero price impact on a leg");
    ctx.assume("decrease swap types other than NoSwap are not used here: a swap of the output inside the close can earn positive swap impact, which is a different mechanism (C05)");
    let kf = ctx.finding_open("KF-C10-1");
    {
        let mut cfg = CfgSpec::default();
        cfg.max_positive_position_impact_factor = 23_711_327_487;
        cfg.max_negative_position_impact_factor = 0;
        cfg.position_impact = (2 * UNIT, 60_939_747_819, 200_000_000_000);
        cfg.order_fee = (bp(3700), 0, 0);
        cfg.max_pnl_trader = bp(10);
        let h = History {
            cfg,
            prices: PricesSpec::flat(22_364_992_166_142, 22_364_992_166_142, 99_406_645_569_066),
            seed_liquidity: (2_320_195_316_925, 483_008_735_800),
            ops: vec![Op::Increase { pos: 3, collateral: 168_130_595, size_usd: 40 }],
        };
        let w = OpenClose { history: h, pos: 3, collateral: 1_253_819_709, leverage: 37, skew: None, size_pct: 0, frictionless: None };
        let mut rec = Rec::default();
        let r = check_open_close(&w, &mut rec, false);
        ctx.known_witness("KF-C10-1", r.is_err(), "with a max positive position impact factor above the max negative one (2.4e-10 vs 0, zero order fees), opening a position that rebalances the open interest and closing it at once returns more collateral value (output + claimable collateral) than deposited: the opening leg's positive impact is kept, the closing leg's negative impact is capped and credited back");
    }
    let n = ctx.cases(12_000, 600_000);
    ctx.search("open_close", n, open_close_case, move |c, rec| check_open_close(c, rec, kf));
    ctx.floor("open_close:non_zero_impact", 1_000);
}

// ------------------------------------------------------------------------------------------ C08

#[derive(Default, Clone)]
struct Ledger {
    inflow: [BigInt; 2],
    outflow: [BigInt; 2],
}

fn idx(is_long_token: bool) -> usize {
    if is_long_token { 0 } else { 1 }
}

fn holdings(w: &World, is_long_token: bool) -> BigInt {
    let m = &w.market;
    let side = |p: &crate::vmarket::VPool<u128>| if is_long_token { p.long_amount } else { p.short_amount };
    b(side(&m.primary)) + b(side(&m.swap_impact)) + b(side(&m.fee)) + b(side(&m.collateral_sum.0)) + b(side(&m.collateral_sum.1))
}

fn pending_funding_owed(w: &World, is_long_token: bool) -> BigInt {
    use crate::vmarket::VPositionOps;
    use gmsol_model::PositionExt;
    let mut total = BigInt::zero();
    for p in &w.positions {
        if p.size_in_usd == 0 || p.is_collateral_token_long != is_long_token {
            continue;
        }
        let mut pc = *p;
        let mut m = w.market.clone();
        let ops = VPositionOps::new(&mut m, &mut pc);
        if let Ok(f) = ops.pending_funding_fees() {
            total += b(*f.amount());
        }
    }
    total
}

fn check_ledger(h: &History, rec: &mut Rec, kf_open: bool, kf2_open: bool) -> Result<(), String> {
    let mut w = World::new(&h.cfg, h.prices);
    let mut ledger = Ledger::default();
    let mut ops: Vec<Op> = vec![];
    if h.seed_liquidity != (0, 0) {
        ops.push(Op::Deposit { long: h.seed_liquidity.0, short: h.seed_liquidity.1 });
    }
    ops.extend(h.ops.iter().cloned());
    let mut shortfall_total = [BigInt::zero(), BigInt::zero()];
    // tokens credited to pools without being collected (KF-C08-2), per token
    let mut dust_total = [BigInt::zero(), BigInt::zero()];
    let (mut funding_paid, mut funding_claimed) = (false, false);
    for (step, op) in ops.iter().enumerate() {
        let r_before: Vec<BigInt> = [true, false].iter().map(|t| &ledger.inflow[idx(*t)] - &ledger.outflow[idx(*t)] - holdings(&w, *t)).collect();
        let shortfalls_before = w.market.shortfalls.len();
        let pools_before = format!("liq {:?} imp {:?} fee {:?} coll {:?}", w.market.primary, w.market.swap_impact, w.market.fee, w.market.collateral_sum);
        let out = w.apply(op);
        // expected change of the residual per token
        let mut expected = [BigInt::zero(), BigInt::zero()];
        let mut position_op = false;
        match &out {
            Outcome::Deposit(r) => {
                ledger.inflow[0] += b(*r.params().long_token_amount());
                ledger.inflow[1] += b(*r.params().short_token_amount());
            }
            Outcome::Withdraw(r) => {
                ledger.outflow[0] += b(*r.long_token_output());
                ledger.outflow[1] += b(*r.short_token_output());
            }
            Outcome::Swap(r) => {
                let long_in = r.params().is_token_in_long();
                ledger.inflow[idx(long_in)] += b(*r.params().token_in_amount());
                ledger.outflow[idx(!long_in)] += b(*r.token_out_amount());
            }
            Outcome::Increase { pos, report } => {
                position_op = true;
                let (_, coll_long) = position_sides(*pos);
                ledger.inflow[idx(coll_long)] += b(*report.params().collateral_increment_amount());
                let (cl, cs) = report.claimable_funding_amounts();
                ledger.outflow[0] += b(*cl);
                ledger.outflow[1] += b(*cs);
                expected[idx(coll_long)] += b(*report.fees().funding_fees().amount());
                expected[0] -= b(*cl);
                expected[1] -= b(*cs);
                funding_paid |= *report.fees().funding_fees().amount() != 0;
                funding_claimed |= *cl != 0 || *cs != 0;
            }
            Outcome::Decrease { pos, report, .. } => {
                position_op = true;
                let (_, coll_long) = position_sides(*pos);
                ledger.outflow[idx(report.is_output_token_long())] += b(*report.output_amount());
                ledger.outflow[idx(report.is_secondary_output_token_long())] += b(*report.secondary_output_amount());
                let (cl, cs) = report.claimable_funding_amounts();
                ledger.outflow[0] += b(*cl);
                ledger.outflow[1] += b(*cs);
                for cc in [report.claimable_collateral_for_user(), report.claimable_collateral_for_holding()] {
                    ledger.outflow[idx(report.is_output_token_long())] += b(*cc.output_token_amount());
                    ledger.outflow[idx(report.is_secondary_output_token_long())] += b(*cc.secondary_output_token_amount());
                }
                expected[0] -= b(*cl);
                expected[1] -= b(*cs);
                funding_claimed |= *cl != 0 || *cs != 0;
                let new_shortfalls = &w.market.shortfalls[shortfalls_before..];
                if new_shortfalls.is_empty() {
                    expected[idx(coll_long)] += b(*report.fees().funding_fees().amount());
                    funding_paid |= *report.fees().funding_fees().amount() != 0;
                } else {
                    for s in new_shortfalls {
                        expected[idx(s.is_collateral_token_long)] += b(s.paid_in_collateral_amount);
                        // the part paid in the secondary (pnl) token is sent to the holding account
                        // (already counted as paid out through `claimable_collateral_for_holding`)
                        let unpaid = b(s.cost_amount) - b(s.paid_in_collateral_amount);
                        shortfall_total[idx(s.is_collateral_token_long)] += unpaid.max(zero());
                    }
                    rec.class("insufficient_funding_payment_reported");
                }
            }
            Outcome::Failed { .. } | Outcome::Env | Outcome::Skipped => {}
        }
        for t in [true, false] {
            let r_after = &ledger.inflow[idx(t)] - &ledger.outflow[idx(t)] - holdings(&w, t);
            let delta = &r_after - &r_before[idx(t)];
            let tok = if t { "long" } else { "short" };
            if !position_op {
                if !delta.is_zero() {
                    return Err(format!("step {step} ({op:?}): {tok}-token holdings changed by {delta} more than tokens paid in minus paid out"));
                }
            } else if delta != expected[idx(t)] {
                // KF-C08-2: when a decrease exhausts the collateral, the remaining cost is converted
                // into the secondary (pnl) token rounding DOWN; a remainder worth less than one
                // secondary-token unit is treated as paid and the fee/pnl amount is credited to the
                // pools although it was never collected (same arithmetic as GMX payForCost).
                let gap = &expected[idx(t)] - &delta; // tokens credited without being collected
                let dust_bound = {
                    let (pc, po) = if t { (w.prices.long.0, w.prices.short.0) } else { (w.prices.short.0, w.prices.long.0) };
                    b(po / pc.max(1) + 2)
                };
                let is_dust = matches!(&out, Outcome::Decrease { pos, .. } if { let (l, c) = position_sides(*pos); l != c && c == t })
                    && gap.is_positive()
                    && gap <= dust_bound;
                if is_dust && kf2_open {
                    rec.excluded("KF-C08-2");
                    dust_total[idx(t)] += gap;
                    continue;
                }
                let detail = match &out {
                    Outcome::Decrease { report, .. } => format!("{report:?}"),
                    Outcome::Increase { report, .. } => format!("{report:?}"),
                    _ => String::new(),
                };
                let pools_after = format!("liq {:?} imp {:?} fee {:?} coll {:?}", w.market.primary, w.market.swap_impact, w.market.fee, w.market.collateral_sum);
                return Err(format!("step {step} ({op:?}): {tok}-token residual changed by {delta}, expected funding paid - claimable paid out = {}; BEFORE {pools_before}; AFTER {pools_after}; report: {detail}", expected[idx(t)]));
            }
            if &r_after + &shortfall_total[idx(t)] + &dust_total[idx(t)] < zero() {
                // KF-C08-1: claimable funding is credited to receivers when the funding state is
                // updated, while payers are charged only when their own position is next touched.
                // Tightened bound: the residual plus the funding fees still owed by open positions
                // (payable from their collateral) plus reported shortfalls is never negative.
                let owed = pending_funding_owed(&w, t);
                if &r_after + &shortfall_total[idx(t)] + &dust_total[idx(t)] + &owed < zero() {
                    return Err(format!("step {step}: {tok}-token funding residual {r_after} is negative beyond the funding still owed by open positions ({owed}) and reported shortfalls ({})", shortfall_total[idx(t)]));
                }
                if kf_open {
                    rec.excluded("KF-C08-1");
                } else {
                    return Err(format!("step {step}: {tok}-token funding residual is negative ({r_after}) with reported shortfall {}: claimable funding was paid out before the payers were charged (owed by open positions: {owed})", shortfall_total[idx(t)]));
                }
            }
        }
    }
    rec.class_if(funding_paid, "funding_paid");
    rec.class_if(funding_claimed, "funding_claimed");
    rec.nontrivial_if(funding_paid && funding_claimed);
    Ok(())
}

pub fn run_c08(ctx: &mut Ctx) {
    ctx.rule("cases = market configuration + prices + history (<= 35 ops) of deposits, withdrawals, swaps, increases, decreases (all swap types, insolvent closes), liquidations, price moves and clock advances up to 30 days; oracle = per pool token a ledger of tokens paid in (deposits, swap input, collateral increments) and paid out (withdrawal outputs, swap output, decrease outputs, claimable funding, claimable collateral); H = liquidity + swap impact + claimable fees + collateral sums; residual R = in - out - H changes by exactly 0 for non-position operations and by exactly (funding fee paid - claimable funding paid out) for position operations, and R + reported shortfall >= 0 after every step; non-trivial = history with a funding payment and a funding claim");
    let kf = ctx.finding_open("KF-C08-1");
    {
        let h = History {
            cfg: CfgSpec::default(),
            prices: PricesSpec::flat(12_000_000_000_000, 12_000_000_000_000, 100_000_000_000_000),
            seed_liquidity: (1_000_000_000_000, 100_000_000_000),
            ops: vec![
                Op::Increase { pos: 4, collateral: 3_005_972_921, size_usd: 42 },
                Op::Increase { pos: 1, collateral: 53_069_539, size_usd: 1 },
                Op::Advance { secs: 3600 },
                Op::Increase { pos: 1, collateral: 10_000_000, size_usd: 1 },
            ],
        };
        let mut rec = Rec::default();
        let r = check_ledger(&h, &mut rec, false, true);
        ctx.known_witness("KF-C08-1", r.is_err(), "claimable funding is paid out to the receiving side (short position touched after 1 h) before the paying long position has been charged: tokens paid out exceed tokens paid in minus accounted holdings until the payer is next updated");
    }
    let kf2 = ctx.finding_open("KF-C08-2");
    {
        let h = History {
            cfg: CfgSpec::default(),
            prices: PricesSpec { index: (8_148_346_409_984, 8_175_280_394_204), long: (8_148_346_409_984, 8_175_280_394_204), short: (98_000_000_000_000, 98_000_000_000_000) },
            seed_liquidity: (100_000_000_000, 10_000_000_000),
            ops: vec![
                Op::Increase { pos: 5, collateral: 111, size_usd: 5 },
                Op::MovePrice { bp: -70, index_only: false },
                Op::MovePrice { bp: 480, index_only: true },
                Op::MovePrice { bp: 1480, index_only: false },
                Op::Decrease { pos: 5, size_bp: 1, withdraw_bp: 0, cap: false, swap: 0, insolvent_ok: false },
            ],
        };
        let mut cfg = h.clone();
        cfg.cfg.min_position_size_usd = 0;
        cfg.cfg.min_collateral_value = 0;
        let mut rec = Rec::default();
        let r = check_ledger(&cfg, &mut rec, true, false);
        ctx.known_witness("KF-C08-2", r.is_err(), "closing a dust short position (111 long-token units of collateral) whose loss consumes all collateral credits 112 units to the liquidity pool: the 1-unit order fee is converted to the secondary token rounding down to 0, treated as paid and credited although nothing was collected");
    }
    let n = ctx.cases(15_000, 750_000);
    ctx.search("ledger", n, || position_heavy(35), move |h, rec| check_ledger(h, rec, kf, kf2));
    ctx.floor("ledger:funding_paid", 500);
    ctx.floor("ledger:funding_claimed", 300);
}
