//! C42 Swap path search returns valid, bounded and best paths.

use crate::engine::{no_panic, Ctx, Rec};
use anchor_lang::prelude::Pubkey;
use bytemuck::Zeroable;
use gmsol_programs::gmsol_store::accounts::Market;
use gmsol_programs::model::MarketModel;
use gmsol_sdk::market_graph::{MarketGraph, MarketGraphConfig};
use proptest::prelude::*;
use rust_decimal::{Decimal, MathematicalOps};
use serde::{Deserialize, Serialize};
use std::sync::Arc;

#[derive(Debug, Clone, Serialize, Deserialize)]
pub struct MarketSpec {
    pub long: u8,
    pub short: u8,
    /// ln(rate) in thousandths for long->short and short->long; None = direction unavailable
    pub ln_ab: Option<i16>,
    pub ln_ba: Option<i16>,
}

#[derive(Debug, Clone, Serialize, Deserialize)]
pub struct Case {
    pub tokens: u8,
    pub markets: Vec<MarketSpec>,
    pub max_steps: u8,
    pub source: u8,
    pub skip_bellman_ford: bool,
}

fn case() -> impl Strategy<Value = Case> {
    (3u8..=7).prop_flat_map(|tokens| {
        let m = (0..tokens, 0..tokens, prop_oneof![8 => (-60i16..=-1).prop_map(Some), 2 => (0i16..=25).prop_map(Some), 1 => Just(None)], prop_oneof![8 => (-60i16..=-1).prop_map(Some), 2 => (0i16..=25).prop_map(Some), 1 => Just(None)])
            .prop_map(move |(a, b, ln_ab, ln_ba)| {
                let b = if a == b { (b + 1) % tokens } else { b };
                MarketSpec { long: a, short: b, ln_ab, ln_ba }
            });
        (Just(tokens), proptest::collection::vec(m, 2..=9), 1u8..=6, 0..tokens, prop_oneof![4 => Just(false), 1 => Just(true)])
            .prop_map(|(tokens, markets, max_steps, source, skip_bellman_ford)| Case { tokens, markets, max_steps, source, skip_bellman_ford })
    })
}

fn token(i: u8) -> Pubkey {
    crate::svm::key_of(&format!("c42-token-{i}"))
}
fn market_token(i: usize) -> Pubkey {
    crate::svm::key_of(&format!("c42-market-{i}"))
}
fn ln(x: i16) -> Decimal {
    Decimal::new(x as i64, 3)
}

struct Best {
    cost: Decimal,
    path: Vec<usize>,
}

/// All paths without a repeated market, up to `max_steps` hops: best cost per target token.
fn brute_force(c: &Case) -> (Vec<Option<Best>>, usize) {
    let n = c.tokens as usize;
    let mut best: Vec<Option<Best>> = (0..n).map(|_| None).collect();
    let mut count_paths = vec![0usize; n];
    fn rec(c: &Case, cur: u8, cost: Decimal, used: &mut Vec<usize>, best: &mut Vec<Option<Best>>, counts: &mut Vec<usize>) {
        if !used.is_empty() {
            counts[cur as usize] += 1;
            let better = best[cur as usize].as_ref().map(|b| cost < b.cost).unwrap_or(true);
            if better {
                best[cur as usize] = Some(Best { cost, path: used.clone() });
            }
        }
        if used.len() >= c.max_steps as usize {
            return;
        }
        for (mi, m) in c.markets.iter().enumerate() {
            if used.contains(&mi) {
                continue;
            }
            let step = if m.long == cur { m.ln_ab.map(|l| (m.short, l)) } else if m.short == cur { m.ln_ba.map(|l| (m.long, l)) } else { None };
            if let Some((next, l)) = step {
                used.push(mi);
                rec(c, next, cost - ln(l), used, best, counts);
                used.pop();
            }
        }
    }
    rec(c, c.source, Decimal::ZERO, &mut vec![], &mut best, &mut count_paths);
    let multi = count_paths.iter().filter(|x| **x >= 2).count();
    (best, multi)
}

/// Is there a cycle (closed walk over distinct directed edges) with positive total ln(rate)?
fn has_arbitrage(c: &Case) -> bool {
    // Bellman-Ford from a virtual source over the directed edges (costs = -ln)
    let n = c.tokens as usize;
    let mut dist = vec![Decimal::ZERO; n];
    let edges: Vec<(usize, usize, Decimal)> = c
        .markets
        .iter()
        .flat_map(|m| {
            let mut v = vec![];
            if let Some(l) = m.ln_ab {
                v.push((m.long as usize, m.short as usize, -ln(l)));
            }
            if let Some(l) = m.ln_ba {
                v.push((m.short as usize, m.long as usize, -ln(l)));
            }
            v
        })
        .collect();
    for _ in 0..n {
        for (a, b2, w) in &edges {
            if dist[*a] + *w < dist[*b2] {
                dist[*b2] = dist[*a] + *w;
            }
        }
    }
    edges.iter().any(|(a, b2, w)| dist[*a] + *w < dist[*b2])
}

fn check(c: &Case, rec: &mut Rec, kf_bf_open: bool, kf_dfs_open: bool) -> Result<(), String> {
    let kf_open = if c.skip_bellman_ford { kf_dfs_open } else { kf_bf_open };
    let kf_name: &'static str = if c.skip_bellman_ford { "KF-C42-2" } else { "KF-C42-1" };
    let mut g = MarketGraph::with_config(MarketGraphConfig { max_steps: c.max_steps as usize, ..Default::default() });
    for (i, m) in c.markets.iter().enumerate() {
        let mut market = Market::zeroed();
        market.meta.market_token_mint = market_token(i);
        market.meta.index_token_mint = token(m.long);
        market.meta.long_token_mint = token(m.long);
        market.meta.short_token_mint = token(m.short);
        let model = MarketModel::from_parts(Arc::new(market), 0);
        if !g.insert_market_with_options(model, false) {
            return Err("market inserted twice".into());
        }
        g.verif_set_edge(&market_token(i), true, m.ln_ab.map(ln));
        g.verif_set_edge(&market_token(i), false, m.ln_ba.map(ln));
    }
    // the source must be a known collateral token
    if !c.markets.iter().any(|m| m.long == c.source || m.short == c.source) {
        rec.class("source_unknown");
        return Ok(());
    }
    let arb = has_arbitrage(c);
    rec.class(if arb { "with_arbitrage_cycle" } else { "no_arbitrage" });
    let paths = no_panic(|| g.best_swap_paths(&token(c.source), c.skip_bellman_ford))
        .map_err(|p| format!("best_swap_paths panicked: {p}"))?
        .map_err(|e| format!("best_swap_paths failed: {e}"))?;
    if !c.skip_bellman_ford {
        if let Some(flag) = paths.arbitrage_exists() {
            if flag != arb && !arb {
                return Err("arbitrage reported on a graph without a negative cycle".into());
            }
        }
    }
    let (best, multi) = brute_force(c);
    rec.nontrivial_if(multi > 0);
    for t in 0..c.tokens {
        if t == c.source {
            continue;
        }
        let (rate, path) = paths.to(&token(t));
        let reference = &best[t as usize];
        if path.is_empty() {
            if rate.is_some() {
                return Err(format!("target {t}: a rate without a path"));
            }
            if reference.is_some() && !arb {
                // A feasible path exists but nothing is recommended. The statement only constrains
                // recommended paths, so this is counted, not asserted.
                rec.class("feasible_path_not_recommended");
            }
            continue;
        }
        rec.class("path_recommended");
        // validity of the recommended path
        if path.len() > c.max_steps as usize {
            return Err(format!("target {t}: path of {} steps exceeds the limit {}", path.len(), c.max_steps));
        }
        let mut cur = c.source;
        let mut cost = Decimal::ZERO;
        let mut used = vec![];
        for mt in &path {
            let mi = (0..c.markets.len()).find(|i| market_token(*i) == *mt).ok_or("unknown market in path")?;
            if used.contains(&mi) {
                return Err(format!("target {t}: market {mi} repeated in the path"));
            }
            used.push(mi);
            let m = &c.markets[mi];
            let (next, l) = if m.long == cur {
                (m.short, m.ln_ab)
            } else if m.short == cur {
                (m.long, m.ln_ba)
            } else {
                return Err(format!("target {t}: market {mi} does not contain the token being swapped"));
            };
            let l = l.ok_or_else(|| format!("target {t}: path uses an unavailable direction of market {mi}"))?;
            cost -= ln(l);
            cur = next;
        }
        if cur != t {
            return Err(format!("target {t}: path ends at token {cur}"));
        }
        let expected_rate = (-cost).exp();
        match rate {
            Some(r) => {
                let diff = (r - expected_rate).abs();
                if diff > expected_rate * Decimal::new(1, 18) {
                    if kf_open {
                        rec.excluded(kf_name);
                    } else {
                        return Err(format!("target {t}: reported rate {r} does not match the path's cost (exp(-{cost}) = {expected_rate})"));
                    }
                }
            }
            None => return Err(format!("target {t}: a path without a rate")),
        }
        if !arb {
            if let Some(b) = reference {
                if b.cost < cost {
                    if kf_open {
                        rec.excluded(kf_name);
                    } else {
                        return Err(format!("target {t}: path {:?} (cost {}) is strictly better than the recommended {used:?} (cost {cost}), max steps {}", b.path, b.cost, c.max_steps));
                    }
                }
            } else {
                return Err(format!("target {t}: brute force finds no path but one was recommended"));
            }
        }
    }
    Ok(())
}

pub fn run(ctx: &mut Ctx) {
    ctx.rule("cases = 3..7 tokens, 2..9 markets between distinct tokens with per-direction ln(rate) from a 0.001 grid (mostly costs, some gains => arbitrage cycles, some unavailable), step limit 1..6, source token, Bellman-Ford or DFS mode; oracle = brute-force enumeration of all paths without a repeated market up to the step limit (exact Decimal sums): the recommended path starts at the source, chains markets through the traded token, ends at the target, repeats no market, stays within the limit, uses only available directions, its rate equals exp(-sum cost) within 1e-18 relative, and without a negative cycle no enumerated path is strictly cheaper; non-trivial = some target reachable by >= 2 distinct paths");
    ctx.assume("edge costs are injected through MarketGraph::verif_set_edge (`verif` feature of gmsol-sdk); the swap estimation that normally produces them is not part of this check");
    let kf1 = ctx.finding_open("KF-C42-1");
    let kf2 = ctx.finding_open("KF-C42-2");
    {
        let m = |long, short, ab: Option<i16>, ba: Option<i16>| MarketSpec { long, short, ln_ab: ab, ln_ba: ba };
        let w = Case {
            tokens: 7,
            markets: vec![m(1, 5, Some(4), Some(-4)), m(1, 2, Some(-9), Some(-2)), m(3, 1, Some(0), None), m(5, 2, Some(-3), Some(-2)), m(2, 3, Some(-1), Some(-2))],
            max_steps: 2,
            source: 2,
            skip_bellman_ford: true,
        };
        let mut rec = Rec::default();
        let r = check(&w, &mut rec, false, false);
        ctx.known_witness("KF-C42-2", r.is_err(), "DFS mode (skip_bellman_ford = true) recommends market [3] (cost 0.002) from token 2 to token 5 with max_steps 2 although [1, 0] costs -0.002: the search prunes by distance without regard to the steps already used");
    }
    let n = ctx.cases(30_000, 1_500_000);
    ctx.search("paths", n, case, move |c, rec| check(c, rec, kf1, kf2));
    ctx.floor("paths:no_arbitrage", 5_000);
    ctx.floor("paths:path_recommended", 5_000);
}
