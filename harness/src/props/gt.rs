//! GT checks through the `verif` hooks: C30 (supply, cost, ranks) and C31 (order fee discount).

use crate::engine::{no_panic, pick, Ctx, Rec};
use crate::refmath::*;
use crate::svm;
use bytemuck::Zeroable;
use gmsol_store::states::{FactorKey, Store, UserHeader};
use gmsol_store::verif as hook;
use num_bigint::BigInt;
use proptest::prelude::*;
use serde::{Deserialize, Serialize};

const UNIT: u128 = 100_000_000_000_000_000_000;

#[derive(Debug, Clone, Serialize, Deserialize)]
pub enum GtOp {
    Mint(u16, u64),
    Burn(u16, u64),
    Quote(u128),
    Tick(u32),
}

#[derive(Debug, Clone, Serialize, Deserialize)]
pub struct GtCase {
    pub initial_cost: u128,
    pub grow_factor: u128,
    pub grow_step: u64,
    pub ranks: Vec<u64>,
    pub ops: Vec<GtOp>,
}

fn gt_case() -> impl Strategy<Value = GtCase> {
    (
        prop_oneof![3 => (UNIT / 1000)..=(100 * UNIT), 1 => 1u128..=1000, 1 => Just(UNIT)],
        prop_oneof![3 => UNIT..=(UNIT + UNIT / 10), 1 => Just(UNIT), 1 => (UNIT / 2)..=UNIT, 1 => Just(UNIT + UNIT / 100)],
        prop_oneof![3 => 1u64..=10_000, 1 => 10_000u64..=1_000_000_000],
        proptest::collection::btree_set(1u64..=50_000, 0..=15),
        proptest::collection::vec(
            prop_oneof![
                6 => (any::<u16>(), prop_oneof![4 => 0u64..=20_000, 1 => 0u64..=5]).prop_map(|(u, a)| GtOp::Mint(u, a)),
                3 => (any::<u16>(), prop_oneof![4 => 0u64..=20_000, 1 => 0u64..=5]).prop_map(|(u, a)| GtOp::Burn(u, a)),
                2 => prop_oneof![3 => 0u128..=(10_000 * UNIT), 1 => any::<u128>()].prop_map(GtOp::Quote),
                1 => (0u32..=100_000).prop_map(GtOp::Tick),
            ],
            1..40,
        ),
    )
        .prop_map(|(initial_cost, grow_factor, grow_step, ranks, ops)| GtCase { initial_cost, grow_factor, grow_step, ranks: ranks.into_iter().collect(), ops })
}

const USERS: usize = 4;

fn ref_cost(initial: u128, grow: u128, steps: u64) -> Option<BigInt> {
    let mut c = b(initial);
    for _ in 0..steps {
        c = floor_div(&(&c * b(grow)), &b(UNIT));
        if c > b(u128::MAX) {
            return None;
        }
    }
    Some(c)
}

fn check_gt(c: &GtCase, rec: &mut Rec) -> Result<(), String> {
    svm::init();
    let mut sys = svm::Sysvars::default();
    svm::set_sysvars(sys);
    let mut store = Store::zeroed();
    store.init(svm::key_of("auth"), "", 255, svm::key_of("r"), svm::key_of("h")).map_err(|e| e.to_string())?;
    hook::gt_init(&mut store, 7, c.initial_cost, c.grow_factor, c.grow_step, &c.ranks).map_err(|e| format!("gt init: {e}"))?;
    if hook::gt_ranks(&store) != c.ranks {
        return Err("rank table not stored as given".into());
    }
    let mut users: Vec<UserHeader> = (0..USERS)
        .map(|i| {
            let mut u = UserHeader::zeroed();
            hook::user_init(&mut u, &svm::key_of("store"), &svm::key_of(&format!("u{i}")), 255).unwrap();
            u
        })
        .collect();
    let mut balances = [0u64; USERS];
    let mut total_minted: u64 = 0;
    let (mut crossed_step, mut crossed_rank) = (false, false);
    for (step, op) in c.ops.iter().enumerate() {
        let before = bytemuck::bytes_of(&store).to_vec();
        match op {
            GtOp::Mint(u, amount) => {
                let ui = pick(*u, USERS);
                let steps_before = total_minted / c.grow_step;
                let next_total = total_minted.checked_add(*amount);
                let steps_after = next_total.map(|t| t / c.grow_step);
                // bound the work of the reference (and the program's own loop)
                if steps_after.map(|s| s.saturating_sub(steps_before) > 20_000).unwrap_or(false) {
                    continue;
                }
                let cost_ok = steps_after.and_then(|s| ref_cost(c.initial_cost, c.grow_factor, s)).is_some();
                let user_before = bytemuck::bytes_of(&users[ui]).to_vec();
                let rank_before = users[ui].gt().rank();
                let r = no_panic(|| hook::gt_mint_to(&mut store, &mut users[ui], *amount)).map_err(|e| format!("step {step}: mint panicked: {e}"))?;
                match r {
                    Ok(()) => {
                        if !cost_ok || next_total.is_none() {
                            return Err(format!("step {step}: mint succeeded although the total/cost overflows"));
                        }
                        balances[ui] += *amount;
                        total_minted = next_total.unwrap();
                        crossed_step |= steps_after.unwrap() > steps_before;
                        crossed_rank |= users[ui].gt().rank() != rank_before;
                    }
                    Err(e) => {
                        if cost_ok && next_total.is_some() {
                            return Err(format!("step {step}: mint of {amount} failed: {e}"));
                        }
                        if bytemuck::bytes_of(&store) != &before[..] || bytemuck::bytes_of(&users[ui]) != &user_before[..] {
                            return Err(format!("step {step}: failed mint changed state"));
                        }
                    }
                }
            }
            GtOp::Burn(u, amount) => {
                let ui = pick(*u, USERS);
                let user_before = bytemuck::bytes_of(&users[ui]).to_vec();
                let rank_before = users[ui].gt().rank();
                let r = hook::gt_burn_from(&mut store, &mut users[ui], *amount);
                if *amount <= balances[ui] {
                    r.map_err(|e| format!("step {step}: burn of {amount} <= balance failed: {e}"))?;
                    balances[ui] -= *amount;
                    crossed_rank |= users[ui].gt().rank() != rank_before;
                } else {
                    if r.is_ok() {
                        return Err(format!("step {step}: burned {amount} from a balance of {}", balances[ui]));
                    }
                    if bytemuck::bytes_of(&store) != &before[..] || bytemuck::bytes_of(&users[ui]) != &user_before[..] {
                        return Err(format!("step {step}: failed burn changed state"));
                    }
                    rec.class("burn_rejected");
                }
            }
            GtOp::Quote(value) => {
                let cost = store.gt().minting_cost();
                match hook::gt_get_mint_amount(&store, *value) {
                    Ok((minted, minted_value, c2)) => {
                        let q = floor_div(&b(*value), &b(cost));
                        if b(minted) != q || b(minted_value) != &q * b(cost) || c2 != cost {
                            return Err(format!("step {step}: quote for {value} at cost {cost} = ({minted},{minted_value},{c2})"));
                        }
                        if b(*value) - b(minted_value) >= b(cost) {
                            return Err("remainder not below one unit of cost".into());
                        }
                    }
                    Err(_) => {
                        if cost != 0 && floor_div(&b(*value), &b(cost)) <= b(u64::MAX) {
                            return Err(format!("step {step}: quote failed although the amount fits u64"));
                        }
                    }
                }
            }
            GtOp::Tick(secs) => {
                sys.unix_timestamp += *secs as i64;
                svm::set_sysvars(sys);
            }
        }
        // invariants after every step
        let gt = store.gt();
        let sum: u128 = balances.iter().map(|x| *x as u128).sum();
        if gt.supply() as u128 != sum {
            return Err(format!("step {step}: supply {} != sum of user balances {sum}", gt.supply()));
        }
        if gt.total_minted() != total_minted {
            return Err(format!("step {step}: total minted {} != {total_minted}", gt.total_minted()));
        }
        let steps = total_minted / c.grow_step;
        if gt.grow_steps() != steps {
            return Err(format!("step {step}: grow steps {} != total/step {steps}", gt.grow_steps()));
        }
        let expect_cost = ref_cost(c.initial_cost, c.grow_factor, steps).ok_or("reference cost overflow")?;
        if b(gt.minting_cost()) != expect_cost {
            return Err(format!("step {step}: minting cost {} != cost(total minted) {expect_cost}", gt.minting_cost()));
        }
        for (i, u) in users.iter().enumerate() {
            if u.gt().amount() != balances[i] {
                return Err(format!("step {step}: user {i} balance {} != model {}", u.gt().amount(), balances[i]));
            }
            let rank = c.ranks.iter().filter(|t| **t <= balances[i]).count() as u8;
            if u.gt().rank() != rank {
                return Err(format!("step {step}: user {i} with balance {} has rank {}, expected {rank} for thresholds {:?}", balances[i], u.gt().rank(), c.ranks));
            }
        }
    }
    rec.class_if(crossed_step, "crossed_grow_step");
    rec.class_if(crossed_rank, "crossed_rank_boundary");
    rec.nontrivial_if(crossed_step && crossed_rank);
    svm::set_sysvars(svm::Sysvars::default());
    Ok(())
}

pub fn run_c30(ctx: &mut Ctx) {
    ctx.rule("cases = GT init parameters (initial cost, grow factor below/at/above 100 %, grow step, 0..15 sorted rank thresholds) and 1..39 operations mint / burn over 4 users, mint quotes, clock ticks; oracle = reference model: supply == sum of balances, total minted == sum of mints (monotone), minting cost == initial cost with floor(cost*grow/UNIT) applied floor(total_minted/step) times (hence independent of how minting was split), rank == #{threshold <= balance}, quote == (floor(v/c), floor(v/c)*c, c), over-burn rejected with unchanged bytes; non-trivial = history crosses a grow step and a rank boundary");
    ctx.assume("GtState driven through the `verif` hook (store::verif::gt_*) with a stubbed clock; exchange-vault window timing is exercised on the instruction path only when the W1 world is available");
    let n = ctx.cases(20_000, 1_000_000);
    ctx.search("gt", n, gt_case, check_gt);
    ctx.floor("gt:crossed_grow_step", 2_000);
    ctx.floor("gt:crossed_rank_boundary", 2_000);
}

// ------------------------------------------------------------------------------------------ C31

#[derive(Debug, Clone, Serialize, Deserialize)]
pub struct DiscountCase {
    pub ranks: u8,
    pub factors: Vec<u128>,
    pub referred: u128,
    pub rank: u8,
}

fn discount_case() -> impl Strategy<Value = DiscountCase> {
    let f = || prop_oneof![4 => 0u128..=UNIT, 1 => Just(UNIT), 1 => Just(0u128), 1 => (UNIT + 1)..=(2 * UNIT)];
    (0u8..=15, proptest::collection::vec(f(), 16), prop_oneof![4 => 0u128..=UNIT, 1 => Just(UNIT), 1 => Just(0u128), 1 => (UNIT + 1)..=(2 * UNIT)], 0u8..=17, 0u8..4)
        .prop_map(|(ranks, mut factors, referred, rank, keep_invalid)| {
            if keep_invalid != 0 {
                // three quarters of the cases carry a fully valid table
                for f in factors.iter_mut() {
                    if *f > UNIT {
                        *f -= UNIT;
                    }
                }
            }
            DiscountCase { ranks, factors, referred, rank }
        })
}

fn check_discount(c: &DiscountCase, rec: &mut Rec) -> Result<(), String> {
    svm::init();
    svm::set_sysvars(svm::Sysvars::default());
    let mut store = Store::zeroed();
    store.init(svm::key_of("auth"), "", 255, svm::key_of("r"), svm::key_of("h")).map_err(|e| e.to_string())?;
    let thresholds: Vec<u64> = (1..=c.ranks as u64).map(|i| i * 100).collect();
    hook::gt_init(&mut store, 7, UNIT, UNIT, 1000, &thresholds).map_err(|e| e.to_string())?;
    let factors = &c.factors[..=c.ranks as usize];
    let all_valid = factors.iter().all(|f| *f <= UNIT);
    let set = hook::gt_set_order_fee_discount_factors(&mut store, factors);
    if set.is_ok() != all_valid {
        return Err(format!("setting rank discount factors {factors:?}: accepted = {}, all <= 100% = {all_valid}", set.is_ok()));
    }
    if !all_valid {
        rec.class("setter_rejected_above_100_percent");
        return Ok(());
    }
    *store.get_factor_mut(&FactorKey::OrderFeeDiscountForReferredUser.to_string()).map_err(|e| e.to_string())? = c.referred;
    let sdk: gmsol_programs::gmsol_store::accounts::Store = bytemuck::pod_read_unaligned(bytemuck::bytes_of(&store));
    for referred in [false, true] {
        let got = store.order_fee_discount_factor(c.rank, referred);
        let got_sdk = sdk.order_fee_discount_factor(c.rank, referred);
        if c.rank > c.ranks {
            if got.is_ok() {
                return Err(format!("rank {} above the maximum {} was accepted", c.rank, c.ranks));
            }
            if got_sdk.is_ok() {
                return Err(format!("SDK accepted rank {} above the maximum {}", c.rank, c.ranks));
            }
            rec.class("rank_above_max_rejected");
            continue;
        }
        if referred && c.referred > UNIT {
            // the referral discount factor is a plain store factor (no validation on insert): above 100 %
            // the combination 1-(1-a)(1-b) is undefined; program and SDK must both refuse, or agree on a
            // value within 0..=100 %
            match (&got, &got_sdk) {
                (Err(_), Err(_)) => rec.class("referral_discount_above_100_percent_refused"),
                (Ok(d), Ok(d_sdk)) if d == d_sdk && *d <= UNIT => rec.class("referral_discount_above_100_percent_clamped"),
                _ => return Err(format!("referral discount factor {} above 100 %: program {:?}, SDK {:?}", c.referred, got.as_ref().ok(), got_sdk.as_ref().ok())),
            }
            continue;
        }
        let d = got.map_err(|e| format!("discount failed: {e}"))?;
        let d_sdk = got_sdk.map_err(|e| format!("SDK discount failed: {e}"))?;
        if d != d_sdk {
            return Err(format!("program discount {d} != SDK discount {d_sdk} (rank {}, referred {referred})", c.rank));
        }
        if d > UNIT {
            return Err(format!("discount {d} above 100 %"));
        }
        let a = factors[c.rank as usize];
        if referred {
            if d < a {
                return Err(format!("referred discount {d} below the unreferred one {a}"));
            }
            // 1 - (1-a)(1-b), exact rational; allow one unit of rounding
            let exact_num = b(UNIT) * b(UNIT) - (b(UNIT) - b(a)) * (b(UNIT) - b(c.referred));
            let diff = (b(d) * b(UNIT) - exact_num).magnitude().clone();
            if num_bigint::BigInt::from(diff) > b(UNIT) {
                return Err(format!("referred discount {d} is not 1-(1-{a})(1-{}) within one unit", c.referred));
            }
        } else if d != a {
            return Err(format!("unreferred discount {d} != rank factor {a}"));
        }
    }
    rec.nontrivial_if(c.rank <= c.ranks);
    rec.class_if(c.rank <= c.ranks, "combined");
    Ok(())
}

pub fn run_c31(ctx: &mut Ctx) {
    ctx.rule("cases = rank table size 0..=15, 16 rank discount factors (<= 100 %, exactly 100 %, 0, and > 100 % to test the setter), referral discount 0..=100 % and above 100 % (the store factor is not validated on insert: program and SDK must then both refuse or agree on a value within 0..=100 %), rank 0..=17; oracle = setter accepts iff all factors <= 100 %; rank > max rank rejected by program and SDK; 0 <= d <= 100 %; unreferred d == rank factor; referred d >= unreferred and |d - (1-(1-a)(1-b))| <= 1 unit (BigInt rational); the SDK (declare_program Store viewed over the same bytes) returns the identical value; non-trivial = rank within the table");
    ctx.assume("rank factors are installed through the `verif` hook (GtState::set_order_fee_discount_factors); the SDK Store is the same account bytes reinterpreted, so a layout mismatch would also surface here");
    let n = ctx.cases(100_000, 5_000_000);
    ctx.search("discount", n, discount_case, check_discount);
    ctx.floor("discount:combined", 10_000);
    ctx.floor("discount:rank_above_max_rejected", 1_000);
    ctx.floor("discount:setter_rejected_above_100_percent", 1_000);
}
