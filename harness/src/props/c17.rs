//! C17 A newly created market starts from the documented default configuration.

use crate::engine::{Ctx, Rec};
use crate::svm;
use gmsol_model::{ClockKind, PoolKind};
use gmsol_store::constants as k;
use gmsol_store::states::market::config::{MarketConfigFlag, MarketConfigKey};
use gmsol_store::states::Market;
use gmsol_utils::market::MarketFlag;
use serde::{Deserialize, Serialize};
use strum::IntoEnumIterator;

/// Specification table: key -> documented default, written from the constant names and their doc
/// comments in `constants/market.rs` (NOT from `MarketConfig::init`).
pub fn documented_default(key: MarketConfigKey) -> Option<u128> {
    use MarketConfigKey as K;
    Some(match key {
        K::SwapImpactExponent => k::DEFAULT_SWAP_IMPACT_EXPONENT,
        K::SwapImpactPositiveFactor => k::DEFAULT_SWAP_IMPACT_POSITIVE_FACTOR,
        K::SwapImpactNegativeFactor => k::DEFAULT_SWAP_IMPACT_NEGATIVE_FACTOR,
        K::SwapFeeReceiverFactor => k::DEFAULT_RECEIVER_FACTOR,
        K::SwapFeeFactorForPositiveImpact => k::DEFAULT_SWAP_FEE_FACTOR_FOR_POSITIVE_IMPACT,
        K::SwapFeeFactorForNegativeImpact => k::DEFAULT_SWAP_FEE_FACTOR_FOR_NEGATIVE_IMPACT,
        K::MinPositionSizeUsd => k::DEFAULT_MIN_POSITION_SIZE_USD,
        K::MinCollateralValue => k::DEFAULT_MIN_COLLATERAL_VALUE,
        K::MinCollateralFactor => k::DEFAULT_MIN_COLLATERAL_FACTOR,
        K::MinCollateralFactorForOpenInterestMultiplierForLong => k::DEFAULT_MIN_COLLATERAL_FACTOR_FOR_OPEN_INTEREST_FOR_LONG,
        K::MinCollateralFactorForOpenInterestMultiplierForShort => k::DEFAULT_MIN_COLLATERAL_FACTOR_FOR_OPEN_INTEREST_FOR_SHORT,
        K::MaxPositivePositionImpactFactor => k::DEFAULT_MAX_POSITIVE_POSITION_IMPACT_FACTOR,
        K::MaxNegativePositionImpactFactor => k::DEFAULT_MAX_NEGATIVE_POSITION_IMPACT_FACTOR,
        K::MaxPositionImpactFactorForLiquidations => k::DEFAULT_MAX_POSITION_IMPACT_FACTOR_FOR_LIQUIDATIONS,
        K::PositionImpactExponent => k::DEFAULT_POSITION_IMPACT_EXPONENT,
        K::PositionImpactPositiveFactor => k::DEFAULT_POSITION_IMPACT_POSITIVE_FACTOR,
        K::PositionImpactNegativeFactor => k::DEFAULT_POSITION_IMPACT_NEGATIVE_FACTOR,
        K::OrderFeeReceiverFactor => k::DEFAULT_RECEIVER_FACTOR,
        K::OrderFeeFactorForPositiveImpact => k::DEFAULT_ORDER_FEE_FACTOR_FOR_POSITIVE_IMPACT,
        K::OrderFeeFactorForNegativeImpact => k::DEFAULT_ORDER_FEE_FACTOR_FOR_NEGATIVE_IMPACT,
        K::LiquidationFeeReceiverFactor => k::DEFAULT_RECEIVER_FACTOR,
        K::LiquidationFeeFactor => k::DEFAULT_LIQUIDATION_FEE_FACTOR,
        K::PositionImpactDistributeFactor => k::DEFAULT_POSITION_IMPACT_DISTRIBUTE_FACTOR,
        K::MinPositionImpactPoolAmount => k::DEFAULT_MIN_POSITION_IMPACT_POOL_AMOUNT,
        K::BorrowingFeeReceiverFactor => k::DEFAULT_RECEIVER_FACTOR,
        K::BorrowingFeeFactorForLong => k::DEFAULT_BORROWING_FEE_FACTOR_FOR_LONG,
        K::BorrowingFeeFactorForShort => k::DEFAULT_BORROWING_FEE_FACTOR_FOR_SHORT,
        K::BorrowingFeeExponentForLong => k::DEFAULT_BORROWING_FEE_EXPONENT_FOR_LONG,
        K::BorrowingFeeExponentForShort => k::DEFAULT_BORROWING_FEE_EXPONENT_FOR_SHORT,
        K::BorrowingFeeOptimalUsageFactorForLong => k::DEFAULT_BORROWING_FEE_OPTIMAL_USAGE_FACTOR_FOR_LONG,
        K::BorrowingFeeOptimalUsageFactorForShort => k::DEFAULT_BORROWING_FEE_OPTIMAL_USAGE_FACTOR_FOR_SHORT,
        K::BorrowingFeeBaseFactorForLong => k::DEFAULT_BORROWING_FEE_BASE_FACTOR_FOR_LONG,
        K::BorrowingFeeBaseFactorForShort => k::DEFAULT_BORROWING_FEE_BASE_FACTOR_FOR_SHORT,
        K::BorrowingFeeAboveOptimalUsageFactorForLong => k::DEFAULT_BORROWING_FEE_ABOVE_OPTIMAL_USAGE_FACTOR_FOR_LONG,
        K::BorrowingFeeAboveOptimalUsageFactorForShort => k::DEFAULT_BORROWING_FEE_ABOVE_OPTIMAL_USAGE_FACTOR_FOR_SHORT,
        K::FundingFeeExponent => k::DEFAULT_FUNDING_FEE_EXPONENT,
        K::FundingFeeFactor => k::DEFAULT_FUNDING_FEE_FACTOR,
        K::FundingFeeMaxFactorPerSecond => k::DEFAULT_FUNDING_FEE_MAX_FACTOR_PER_SECOND,
        K::FundingFeeMinFactorPerSecond => k::DEFAULT_FUNDING_FEE_MIN_FACTOR_PER_SECOND,
        K::FundingFeeIncreaseFactorPerSecond => k::DEFAULT_FUNDING_FEE_INCREASE_FACTOR_PER_SECOND,
        K::FundingFeeDecreaseFactorPerSecond => k::DEFAULT_FUNDING_FEE_DECREASE_FACTOR_PER_SECOND,
        K::FundingFeeThresholdForStableFunding => k::DEFAULT_FUNDING_FEE_THRESHOLD_FOR_STABLE_FUNDING,
        K::FundingFeeThresholdForDecreaseFunding => k::DEFAULT_FUNDING_FEE_THRESHOLD_FOR_DECREASE_FUNDING,
        K::ReserveFactor => k::DEFAULT_RESERVE_FACTOR,
        K::OpenInterestReserveFactor => k::DEFAULT_OPEN_INTEREST_RESERVE_FACTOR,
        K::MaxPnlFactorForLongDeposit => k::DEFAULT_MAX_PNL_FACTOR_FOR_LONG_DEPOSIT,
        K::MaxPnlFactorForShortDeposit => k::DEFAULT_MAX_PNL_FACTOR_FOR_SHORT_DEPOSIT,
        K::MaxPnlFactorForLongWithdrawal => k::DEFAULT_MAX_PNL_FACTOR_FOR_LONG_WITHDRAWAL,
        K::MaxPnlFactorForShortWithdrawal => k::DEFAULT_MAX_PNL_FACTOR_FOR_SHORT_WITHDRAWAL,
        K::MaxPnlFactorForLongTrader => k::DEFAULT_MAX_PNL_FACTOR_FOR_LONG_TRADER,
        K::MaxPnlFactorForShortTrader => k::DEFAULT_MAX_PNL_FACTOR_FOR_SHORT_TRADER,
        K::MaxPnlFactorForLongAdl => k::DEFAULT_MAX_PNL_FACTOR_FOR_LONG_ADL,
        K::MaxPnlFactorForShortAdl => k::DEFAULT_MAX_PNL_FACTOR_FOR_SHORT_ADL,
        K::MinPnlFactorAfterLongAdl => k::DEFAULT_MIN_PNL_FACTOR_AFTER_LONG_ADL,
        K::MinPnlFactorAfterShortAdl => k::DEFAULT_MIN_PNL_FACTOR_AFTER_SHORT_ADL,
        K::MaxPoolAmountForLongToken => k::DEFAULT_MAX_POOL_AMOUNT_FOR_LONG_TOKEN,
        K::MaxPoolAmountForShortToken => k::DEFAULT_MAX_POOL_AMOUNT_FOR_SHORT_TOKEN,
        K::MaxPoolValueForDepositForLongToken => k::DEFAULT_MAX_POOL_VALUE_FOR_DEPOSIT_LONG_TOKEN,
        K::MaxPoolValueForDepositForShortToken => k::DEFAULT_MAX_POOL_VALUE_FOR_DEPOSIT_SHORT_TOKEN,
        K::MaxOpenInterestForLong => k::DEFAULT_MAX_OPEN_INTEREST_FOR_LONG,
        K::MaxOpenInterestForShort => k::DEFAULT_MAX_OPEN_INTEREST_FOR_SHORT,
        K::MinTokensForFirstDeposit => k::DEFAULT_MIN_TOKENS_FOR_FIRST_DEPOSIT,
        K::MinCollateralFactorForLiquidation => k::DEFAULT_MIN_COLLATERAL_FACTOR_FOR_LIQUIDATION,
        // Market-closed variants default to the corresponding base (open-market) defaults.
        K::MarketClosedMinCollateralFactorForLiquidation => k::DEFAULT_MIN_COLLATERAL_FACTOR_FOR_LIQUIDATION,
        K::MarketClosedBorrowingFeeBaseFactor => k::DEFAULT_BORROWING_FEE_BASE_FACTOR_FOR_LONG,
        K::MarketClosedBorrowingFeeAboveOptimalUsageFactor => k::DEFAULT_BORROWING_FEE_ABOVE_OPTIMAL_USAGE_FACTOR_FOR_LONG,
        _ => return None,
    })
}

fn documented_flag_default(flag: MarketConfigFlag) -> Option<bool> {
    Some(match flag {
        MarketConfigFlag::SkipBorrowingFeeForSmallerSide => k::DEFAULT_SKIP_BORROWING_FEE_FOR_SMALLER_SIDE,
        MarketConfigFlag::IgnoreOpenInterestForUsageFactor => k::DEFAULT_IGNORE_OPEN_INTEREST_FOR_USAGE_FACTOR,
        MarketConfigFlag::EnableMarketClosedParams => false,
        MarketConfigFlag::MarketClosedSkipBorrowingFeeForSmallerSide => k::DEFAULT_SKIP_BORROWING_FEE_FOR_SMALLER_SIDE,
        _ => return None,
    })
}

#[derive(Debug, Clone, Serialize, Deserialize)]
pub struct Case {
    pub pure_market: bool,
    pub enabled: bool,
    pub seed: u8,
    pub now: i64,
}

pub fn new_market(case: &Case) -> Result<Market, String> {
    svm::init();
    svm::set_sysvars(svm::Sysvars { unix_timestamp: case.now, ..Default::default() });
    let key = |s: &str| svm::key_of(&format!("{s}-{}", case.seed));
    let long = key("long");
    let short = if case.pure_market { long } else { key("short") };
    let mut m = Market::default();
    m.init(255, key("store"), "SOL/USD[WSOL-USDC]", key("mt"), key("index"), long, short, case.enabled)
        .map_err(|e| format!("init failed: {e}"))?;
    Ok(m)
}

const ALWAYS_IMPURE: [PoolKind; 3] = [PoolKind::PositionImpact, PoolKind::BorrowingFactor, PoolKind::TotalBorrowing];

pub fn check(case: &Case, rec: &mut Rec) -> Result<(), String> {
    let m = new_market(case)?;
    rec.nontrivial();
    rec.class(if case.pure_market { "pure" } else { "impure" });
    for key in MarketConfigKey::iter() {
        let Some(expected) = documented_default(key) else {
            return Err(format!("no documented default recorded for key {key} (new key: extend the specification table)"));
        };
        let got = *m.get_config_by_key(key).ok_or_else(|| format!("key {key} is not readable"))?;
        if got != expected {
            return Err(format!("config {key} = {got} after init, documented default is {expected}"));
        }
        let by_name = *m.get_config(&key.to_string()).map_err(|e| format!("key {key} by name: {e}"))?;
        if by_name != expected {
            return Err(format!("config {key} read by name = {by_name}, documented default {expected}"));
        }
    }
    for flag in MarketConfigFlag::iter() {
        let Some(expected) = documented_flag_default(flag) else {
            return Err(format!("no documented default for flag {flag}"));
        };
        if m.get_config_flag_by_key(flag) != expected {
            return Err(format!("flag {flag} = {} after init, documented default {expected}", !expected));
        }
    }
    if m.flag(MarketFlag::Pure) != case.pure_market || m.is_pure() != case.pure_market {
        return Err("Pure flag does not match long==short".into());
    }
    if m.is_enabled() != case.enabled {
        return Err("enabled flag not as requested".into());
    }
    for (i, f) in [MarketFlag::AutoDeleveragingEnabledForLong, MarketFlag::AutoDeleveragingEnabledForShort, MarketFlag::GTEnabled, MarketFlag::Closed].into_iter().enumerate() {
        if m.flag(f) {
            return Err(format!("market flag #{i} (adl long, adl short, gt, closed) set on a new market"));
        }
    }
    for kind in PoolKind::iter() {
        let Some(pool) = m.pool(kind) else { continue };
        let expect_pure = case.pure_market && !ALWAYS_IMPURE.contains(&kind);
        // The pure bit is observable through the borsh encoding: byte 0.
        let bytes = anchor_lang::AnchorSerialize::try_to_vec(&pool).map_err(|e| e.to_string())?;
        if (bytes[0] != 0) != expect_pure {
            return Err(format!("pool {kind:?}: pure bit = {}, expected {expect_pure}", bytes[0] != 0));
        }
        use gmsol_model::Balance;
        let (l, s) = (pool.long_amount().map_err(|e| e.to_string())?, pool.short_amount().map_err(|e| e.to_string())?);
        if l != 0 || s != 0 {
            return Err(format!("pool {kind:?} starts at ({l},{s})"));
        }
    }
    // Clocks are not part of the property statement (the ADL clocks legitimately start at 0);
    // they are only classified, not asserted.
    for ck in ClockKind::iter() {
        if let Some(t) = m.clock(ck) {
            rec.class(if t == case.now { "clock_starts_at_now" } else { "clock_starts_elsewhere" });
        }
    }
    if m.state().funding_factor_per_second() != 0 || m.state().long_token_balance_raw() != 0 || m.state().short_token_balance_raw() != 0 {
        return Err("non-zero state after init".into());
    }
    Ok(())
}

pub fn run(ctx: &mut Ctx) {
    ctx.rule("cases = {pure, impure} x {enabled, disabled} x mint seeds x clock values, every MarketConfigKey / MarketConfigFlag / PoolKind / ClockKind variant enumerated per case; oracle = hand-written table key -> DEFAULT_* constant derived from constant names and doc comments; all cases non-trivial");
    ctx.assume("sysvar clock is stubbed; Market::default() + Market::init is what initialize_market runs");
    let mut cases = vec![];
    let n = if ctx.is_quick() { 16 } else { 256 };
    for i in 0..n {
        cases.push(Case { pure_market: i % 2 == 0, enabled: (i / 2) % 2 == 0, seed: i as u8, now: 1_600_000_000 + (i as i64) * 7919 });
    }
    ctx.enumerate("defaults", cases, check);
    ctx.set_exhaustive(true);
    ctx.extra("keys_enumerated", serde_json::json!(MarketConfigKey::iter().count()));
}
