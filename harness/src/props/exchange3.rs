//! C23 extension (`lifecycle_native`): wrapped-native-token escrows and `receiver != owner` on the
//! native world (`world2n`): deposits, withdrawals, swap orders, decrease orders and keeper-created
//! position-cut orders whose escrowed or output token is wrapped SOL (or is not, with a distinct
//! receiver), with `should_unwrap_native_token` on/off, closed by owner / keepers / stranger in
//! pending / completed / cancelled states. The oracle is a lamport + token ledger per party that is
//! predicted, for every successful close, from the state just before it and the routing the program
//! documents (who receives which escrow, who receives the rents), plus end-to-end equations between
//! the state before the action was prepared and the state after its final close.

use crate::engine::{Ctx, Rec};
use crate::svm;
use crate::world2::{self as w2, ata, token_amount, vault_of, DepositRef, OrderRef, WithdrawalRef, World, USD};
use crate::world2n::{self as wn, NativeWorld, TOKEN_ACCOUNT_RENT, WSOL};
use anchor_lang::solana_program::{instruction::Instruction, pubkey::Pubkey};
use proptest::prelude::*;
use serde::{Deserialize, Serialize};
use std::collections::{BTreeMap, BTreeSet};

const PENDING: u8 = 0;
const COMPLETED: u8 = 1;
const CANCELLED: u8 = 2;
const CLOSED: u8 = 3;

#[derive(Debug, Clone, Serialize, Deserialize)]
pub enum NStep {
    /// by: 0 keeper, 1 second keeper, 2 owner, 3 stranger.
    /// mode: 0 fresh prices; 1 request expired (soft failure); 2 feeds older than the heartbeat (hard).
    Exec { by: u8, mode: u8 },
    /// by: 0 owner, 1 keeper, 2 second keeper, 3 stranger.
    Close { by: u8 },
}

#[derive(Debug, Clone, Serialize, Deserialize)]
pub struct NativeCase {
    /// 0 deposit, 1 withdrawal, 2 market swap, 3 market decrease, 4 position cut (ADL / liquidation).
    pub kind: u8,
    /// Which market / tokens / path (meaning depends on the kind, see `build_action`).
    pub shape: u8,
    pub amount: u16,
    pub unwrap: bool,
    pub distinct_receiver: bool,
    /// The distinct receiver already owns ATAs for the tokens it can receive.
    pub receiver_has_atas: bool,
    pub impossible_min: bool,
    pub extra_lamports: u32,
    pub fee: u32,
    pub steps: Vec<NStep>,
}

fn native_case() -> impl Strategy<Value = NativeCase> {
    let step = |exec_weight: u32| {
        prop_oneof![
            exec_weight => (prop_oneof![6 => Just(0u8), 2 => Just(1u8), 1 => Just(2u8), 1 => Just(3u8)], prop_oneof![7 => Just(0u8), 3 => Just(1u8), 1 => Just(2u8)]).prop_map(|(by, mode)| NStep::Exec { by, mode }),
            4 => (prop_oneof![3 => Just(0u8), 3 => Just(1u8), 1 => Just(2u8), 2 => Just(3u8)]).prop_map(|by| NStep::Close { by }),
        ]
    };
    // the first step is an execution more often than the later ones (most ledgers of interest need a terminal state)
    let steps = (step(10), proptest::collection::vec(step(5), 0..5)).prop_map(|(first, mut rest)| {
        rest.insert(0, first);
        rest
    });
    (
        prop_oneof![2 => Just(0u8), 2 => Just(1u8), 3 => Just(2u8), 2 => Just(3u8), 2 => Just(4u8)],
        any::<u8>(),
        0u16..3000,
        prop_oneof![3 => Just(true), 2 => Just(false)],
        prop_oneof![3 => Just(true), 2 => Just(false)],
        prop_oneof![3 => Just(true), 1 => Just(false)],
        prop_oneof![4 => Just(false), 1 => Just(true)],
        prop_oneof![1 => Just(0u32), 5 => 0u32..2_000_000],
        prop_oneof![1 => Just(0u32), 3 => 0u32..3_000_000],
        steps,
    )
        .prop_map(|(kind, shape, amount, unwrap, distinct_receiver, receiver_has_atas, impossible_min, extra_lamports, fee, steps)| NativeCase { kind, shape, amount, unwrap, distinct_receiver, receiver_has_atas, impossible_min, extra_lamports, fee, steps })
}

#[derive(Clone, Debug)]
enum Act {
    Deposit(DepositRef),
    Withdrawal(WithdrawalRef),
    Order(OrderRef),
}

impl Act {
    fn key(&self) -> Pubkey {
        match self {
            Act::Deposit(r) => r.deposit,
            Act::Withdrawal(r) => r.withdrawal,
            Act::Order(r) => r.order,
        }
    }
    fn execution_lamports(&self) -> u64 {
        match self {
            Act::Deposit(r) => r.execution_lamports,
            Act::Withdrawal(r) => r.execution_lamports,
            Act::Order(r) => r.execution_lamports,
        }
    }
    fn prepare(&self, w: &World) -> Vec<Instruction> {
        match self {
            Act::Deposit(r) => w.ixs_prepare_deposit(r),
            Act::Withdrawal(r) => w.ixs_prepare_withdrawal(r),
            Act::Order(r) => w.ixs_prepare_order(r),
        }
    }
    fn create(&self, w: &World, unwrap: bool) -> Instruction {
        match self {
            Act::Deposit(r) => wn::ix_create_deposit(w, r, unwrap),
            Act::Withdrawal(r) => wn::ix_create_withdrawal(w, r, unwrap),
            Act::Order(r) => wn::ix_create_order(w, r, unwrap),
        }
    }
    fn execute(&self, w: &World, by: Pubkey, fee: u64) -> Instruction {
        match self {
            Act::Deposit(r) => w.ix_execute_deposit(r, by, fee, false),
            Act::Withdrawal(r) => w.ix_execute_withdrawal(r, by, fee, false),
            Act::Order(r) => w.ix_execute_order(r, by, fee, false),
        }
    }
    /// The close instruction a client builds: real ATAs, or (unwrap flag set) the wallets themselves
    /// wherever the ATA of the native mint is expected.
    fn close(&self, w: &World, by: Pubkey, unwrap: bool, owner: Pubkey, receiver: Pubkey) -> Instruction {
        let i = match self {
            Act::Deposit(r) => w.ix_close_deposit(r, by),
            Act::Withdrawal(r) => w.ix_close_withdrawal(r, by),
            Act::Order(r) => w.ix_close_order(r, by),
        };
        if unwrap {
            wn::unwrap_convention(i, &[owner, receiver])
        } else {
            i
        }
    }
    /// The escrow accounts of the action in the order the close instruction handles them, with the
    /// party the program documents as recipient (`true` = receiver, `false` = owner): a deposit's
    /// minted market tokens belong to the receiver and its initial tokens to the owner; a
    /// withdrawal's market tokens belong to the owner and its final tokens to the receiver; an
    /// order's initial collateral belongs to the owner (handled first unless the order completed)
    /// and every output escrow to the receiver.
    fn routing(&self, w: &World, completed: bool) -> Vec<(Pubkey, Pubkey, bool)> {
        let k = self.key();
        let mut out: Vec<(Pubkey, Pubkey, bool)> = vec![];
        let mut push = |mint: Pubkey, to_receiver: bool| {
            let e = ata(&k, &mint);
            if !out.iter().any(|x| x.0 == e) {
                out.push((e, mint, to_receiver));
            }
        };
        match self {
            Act::Deposit(r) => {
                push(w.markets[r.market].token, true);
                for t in [r.long_token, r.short_token].into_iter().flatten() {
                    push(t, false);
                }
            }
            Act::Withdrawal(r) => {
                push(w.markets[r.market].token, false);
                push(r.final_long_token, true);
                push(r.final_short_token, true);
            }
            Act::Order(r) => {
                if !completed {
                    if let Some(t) = r.initial_collateral_token {
                        push(t, false);
                    }
                }
                push(r.final_output_token, true);
                if !r.is_swap() {
                    push(w.markets[r.market].long, true);
                    push(w.markets[r.market].short, true);
                }
                if completed {
                    if let Some(t) = r.initial_collateral_token {
                        push(t, false);
                    }
                }
            }
        }
        out
    }
}

/// Predicted effect of one close instruction.
#[derive(Default, Debug)]
struct Pred {
    wallets: BTreeMap<Pubkey, i128>,
    tokens: BTreeMap<Pubkey, i128>,
    created: Vec<Pubkey>,
    closed: Vec<Pubkey>,
    /// A keeper close stops (successfully) at the first non-empty escrow whose target ATA does not exist.
    skipped: bool,
    unwrapped_to_owner: u64,
    unwrapped_to_receiver: u64,
    /// Unwrapped with the rent receiver different from the recipient (two transfers: rent, amount).
    split: bool,
    /// Unwrapped with the rent receiver being the recipient (one transfer of the whole balance).
    single: bool,
    wrapped_native_delivery: bool,
    plain_delivery_to_receiver: bool,
    returned_to_owner: bool,
    rent_to_other_than_recipient: bool,
}

fn predict_close(w: &World, routing: &[(Pubkey, Pubkey, bool)], action: &Pubkey, owner: Pubkey, receiver: Pubkey, rent_receiver: Pubkey, executor: Pubkey, unwrap: bool) -> Pred {
    let mut p = Pred::default();
    let executor_is_owner = executor == owner;
    for (escrow, mint, to_receiver) in routing {
        let amount = token_amount(&w.vm, escrow);
        let lam = w2::lamports(&w.vm, escrow);
        let recipient = if *to_receiver { receiver } else { owner };
        let native = *mint == WSOL;
        if native && unwrap && amount > 0 {
            *p.wallets.entry(recipient).or_default() += amount as i128;
            *p.wallets.entry(rent_receiver).or_default() += lam as i128 - amount as i128;
            if *to_receiver {
                p.unwrapped_to_receiver += amount;
            } else {
                p.unwrapped_to_owner += amount;
            }
            if rent_receiver == recipient {
                p.single = true;
            } else {
                p.split = true;
            }
        } else {
            if amount > 0 {
                let target = ata(&recipient, mint);
                let exists = w.vm.get(&target).is_some() || p.created.contains(&target);
                if !exists {
                    if executor_is_owner {
                        *p.wallets.entry(executor).or_default() -= TOKEN_ACCOUNT_RENT as i128;
                        p.created.push(target);
                    } else {
                        p.skipped = true;
                        break;
                    }
                }
                *p.tokens.entry(target).or_default() += amount as i128;
                p.wrapped_native_delivery |= native;
                p.plain_delivery_to_receiver |= *to_receiver && receiver != owner;
                p.returned_to_owner |= !*to_receiver;
            }
            let rent = lam as i128 - if native { amount as i128 } else { 0 };
            *p.wallets.entry(rent_receiver).or_default() += rent;
            p.rent_to_other_than_recipient |= rent_receiver != recipient;
        }
        p.closed.push(*escrow);
    }
    if !p.skipped {
        *p.wallets.entry(rent_receiver).or_default() += w2::lamports(&w.vm, action) as i128;
    }
    p
}

/// Lamports of an account that are not the balance of a wrapped-SOL token account.
fn non_token_lamports(a: &svm::Acct) -> i128 {
    let mut l = a.lamports as i128;
    if a.owner == spl_token::ID && a.data.len() == 165 && a.data[0..32] == WSOL.to_bytes() {
        l -= u64::from_le_bytes(a.data[64..72].try_into().unwrap()) as i128;
    }
    l
}

fn unit(w: &World, token: &Pubkey, dollars: u64) -> u64 {
    // WSOL and LONG: $100, 9 decimals; SHORT: $1, 6 decimals
    if *token == w.short_mint {
        dollars * 1_000_000
    } else {
        dollars * 10_000_000
    }
}

struct Built {
    act: Act,
    market: usize,
    is_long: bool,
    /// Mints whose ATAs the receiver may need.
    out_mints: Vec<Pubkey>,
    native_in: bool,
    native_out: bool,
}

/// Open a 5x long position of `owner` in market `m` ($10k collateral) through a real increase order.
fn open_position(w: &mut World, owner: Pubkey, m: usize, collateral_long: bool) -> Result<Pubkey, String> {
    let info = w.markets[m].clone();
    let collateral = if collateral_long { info.long } else { info.short };
    let a = unit(w, &collateral, 10_000);
    let r = w.increase_order_ref(owner, m, true, collateral_long, collateral, vec![], a, 50_000 * USD);
    for i in w.ixs_prepare_order(&r) {
        w.vm.process(&i).map_err(|e| format!("setup prepare: {e:?}"))?;
    }
    w.vm.process(&w.ix_create_order(&r)).map_err(|e| format!("setup create increase: {e:?} {:?}", svm::take_logs().last()))?;
    w.advance(1);
    w.refresh_prices()?;
    let keeper = w.keeper;
    w.vm.process(&w.ix_execute_order(&r, keeper, 0, true)).map_err(|e| format!("setup execute increase: {e:?} {:?}", svm::take_logs().last()))?;
    w.vm.process(&w.ix_close_order(&r, owner)).map_err(|e| format!("setup close increase: {e:?}"))?;
    w.advance(2);
    r.position.ok_or_else(|| "no position".to_string())
}

fn build_action(nw: &mut NativeWorld, c: &NativeCase, owner: Pubkey, receiver: Pubkey) -> Result<Built, String> {
    let (n0, n1) = (nw.n0, nw.n1);
    let w = &mut nw.w;
    let (lm, sm) = (w.long_mint, w.short_mint);
    let exec_lamports = 300_000 + c.extra_lamports as u64;
    match c.kind % 5 {
        0 => {
            let m = [n0, n1, 0][c.shape as usize % 3];
            let info = w.markets[m].clone();
            let dollars = c.amount as u64 + 1;
            let (lt, st, la, sa) = match (c.shape / 3) % 3 {
                0 => (Some(info.long), Some(info.short), unit(w, &info.long, dollars), unit(w, &info.short, dollars / 2 + 1)),
                1 => (Some(info.long), None, unit(w, &info.long, dollars), 0),
                _ => (None, Some(info.short), 0, unit(w, &info.short, dollars)),
            };
            let mut r = w.deposit_ref(owner, m, lt, st, la, sa);
            r.receiver = receiver;
            r.execution_lamports = exec_lamports;
            if c.impossible_min {
                r.min_out = u64::MAX;
            }
            let native_in = lt == Some(WSOL) || st == Some(WSOL);
            Ok(Built { act: Act::Deposit(r), market: m, is_long: true, out_mints: vec![info.token], native_in, native_out: false })
        }
        1 => {
            let m = [n0, n1, 0][c.shape as usize % 3];
            let info = w.markets[m].clone();
            let bal = token_amount(&w.vm, &ata(&owner, &info.token));
            let mut r = w.withdrawal_ref(owner, m, (bal as u128 * (c.amount as u128 + 1) / 6000) as u64);
            if (c.shape / 3) % 2 == 1 {
                if m == n0 {
                    // the WSOL side leaves as LONG through N1
                    r.final_long_token = lm;
                    r.long_path = vec![n1];
                } else if m == n1 {
                    // the WSOL side leaves as SHORT through N0
                    r.final_short_token = sm;
                    r.short_path = vec![n0];
                } else {
                    // the LONG side leaves as WSOL through N1
                    r.final_long_token = WSOL;
                    r.long_path = vec![n1];
                }
            }
            r.receiver = receiver;
            r.execution_lamports = exec_lamports;
            if c.impossible_min {
                r.min_long = u64::MAX;
            }
            let native_out = r.final_long_token == WSOL || r.final_short_token == WSOL;
            let out_mints = vec![r.final_long_token, r.final_short_token];
            Ok(Built { act: Act::Withdrawal(r), market: m, is_long: true, out_mints, native_in: false, native_out })
        }
        2 => {
            let dollars = c.amount as u64 + 1;
            // (token in, path, is the output the long token of the last market)
            let (tin, path, out_long): (Pubkey, Vec<usize>, bool) = match c.shape % 7 {
                0 => (WSOL, vec![n0], false),
                1 => (sm, vec![n0], true),
                2 => (WSOL, vec![n1], true),
                3 => (lm, vec![n1], false),
                4 => (lm, vec![0], false),
                5 => (sm, vec![n0, n1], true),
                _ => (lm, vec![0, n0], true),
            };
            let a = unit(w, &tin, dollars);
            let last = *path.last().unwrap();
            let mut r = w.swap_order_ref(owner, last, tin, out_long, path, a);
            r.receiver = receiver;
            r.execution_lamports = exec_lamports;
            if c.impossible_min {
                r.min_output = Some(u128::MAX);
            }
            let out = r.final_output_token;
            Ok(Built { act: Act::Order(r), market: last, is_long: true, out_mints: vec![out], native_in: tin == WSOL, native_out: out == WSOL })
        }
        _ => {
            // kind 3 (kind 4 builds its order in `check`): (market, collateral is the long token, output token, path)
            let (m, coll_long, out, path): (usize, bool, Pubkey, Vec<usize>) = match c.shape % 6 {
                0 => (n0, true, WSOL, vec![]),
                1 => (n0, false, sm, vec![]),
                2 => (n1, false, WSOL, vec![]),
                3 => (0, true, lm, vec![]),
                4 => (n0, false, WSOL, vec![n0]),
                _ => (n0, true, sm, vec![n0]),
            };
            let position = open_position(w, owner, m, coll_long)?;
            let st = w.position_state(&position).ok_or("setup position missing")?;
            let full = c.amount % 2 == 0;
            let size = if full { st.state.size_in_usd } else { st.state.size_in_usd / 3 };
            let mut r = w.decrease_order_ref(owner, m, true, coll_long, out, path, 0, size);
            r.receiver = receiver;
            r.execution_lamports = exec_lamports;
            if c.impossible_min {
                r.acceptable_price = Some(u128::MAX);
            }
            let info = w.markets[m].clone();
            let native_out = out == WSOL || info.long == WSOL || info.short == WSOL;
            Ok(Built { act: Act::Order(r), market: m, is_long: true, out_mints: vec![out, info.long, info.short], native_in: false, native_out })
        }
    }
}

fn check_native(c: &NativeCase, rec: &mut Rec, kf_open: bool) -> Result<(), String> {
    let mut nw = NativeWorld::seeded()?;
    let (keeper, keeper2, stranger) = (nw.w.keeper, nw.w.keeper2, nw.w.stranger);
    let (lm, sm) = (nw.w.long_mint, nw.w.short_mint);
    let kind = c.kind % 5;
    let owner = if kind == 1 { nw.w.user(2) } else { nw.w.user(0) };
    let is_cut = kind == 4;
    // a position-cut order is created by the keeper: receiver = owner, unwrap flag always set
    let distinct = c.distinct_receiver && !is_cut;
    let receiver = if distinct { nw.receiver } else { owner };
    let unwrap = c.unwrap || is_cut;
    let n0 = nw.n0;

    // ---- the action (set-up positions included)
    let (built, cut_position): (Built, Option<Pubkey>) = if is_cut {
        let w = &mut nw.w;
        let coll_long = c.shape % 2 == 0;
        let position = open_position(w, owner, n0, coll_long)?;
        let r = w.liquidation_ref(keeper, owner, n0, true, coll_long);
        let info = w.markets[n0].clone();
        (Built { act: Act::Order(r), market: n0, is_long: true, out_mints: vec![info.long, info.short], native_in: false, native_out: true }, Some(position))
    } else {
        (build_action(&mut nw, c, owner, receiver)?, None)
    };
    let w = &mut nw.w;
    let act = built.act.clone();
    let m = built.market;
    if distinct && c.receiver_has_atas {
        for mint in &built.out_mints {
            w.vm.process(&w.ix_prepare_ata(receiver, receiver, *mint)).map_err(|e| format!("receiver ATA: {e:?}"))?;
        }
    }
    let needs_claimables = kind == 3 || is_cut;
    if needs_claimables && !is_cut {
        for i in w.ixs_prepare_claimables(keeper2, m, owner, true) {
            w.vm.process(&i).map_err(|e| format!("setup claimables: {e:?}"))?;
        }
    }

    // ---- snapshot S0
    let s0: BTreeMap<Pubkey, svm::Acct> = w.vm.accounts.clone();
    let tokens0 = w2::token_accounts(&w.vm);
    let supplies0: Vec<u64> = w.markets.iter().map(|mi| w2::mint_supply(&w.vm, &mi.token)).collect();
    let wallets = [owner, receiver, keeper, keeper2, stranger, w.store_wallet];

    // ---- create
    let mut state;
    let mut fees: BTreeMap<Pubkey, u64> = BTreeMap::new();
    let created_at;
    let mut expected_rent_receiver = owner;
    if let Some(position) = cut_position {
        // adverse move for the pool (ADL) or for the position (liquidation), then the cut by the keeper
        let Act::Order(r) = &act else { unreachable!() };
        let cut = c.amount % 3;
        let index = w.markets[n0].index;
        let (mid, sp) = w.prices[&index];
        w.set_price(&index, if cut == 2 { mid * 805 / 1000 } else { mid * 130 / 100 }, sp);
        w.advance(1);
        w.refresh_prices()?;
        if cut != 2 {
            w.vm.process(&w.ix_update_adl_state(keeper, n0, true)).map_err(|e| format!("update_adl_state: {e:?}"))?;
        }
        for i in w.ixs_prepare_liquidation(r, keeper) {
            w.vm.process(&i).map_err(|e| format!("prepare cut: {e:?}"))?;
        }
        let st = w.position_state(&position).ok_or("position missing")?;
        let size = if cut == 0 { st.state.size_in_usd / 3 } else { st.state.size_in_usd };
        let i = if cut == 2 { w.ix_liquidate(r, keeper, c.fee as u64) } else { w.ix_auto_deleverage(r, keeper, size, c.fee as u64) };
        if let Err(e) = w.vm.process(&i) {
            rec.class(if cut == 2 { "liquidation_rejected" } else { "adl_rejected" });
            rec.note(format!("cut rejected: {e:?}"));
            svm::set_sysvars(svm::Sysvars::default());
            return Ok(());
        }
        w.set_price(&index, mid, sp);
        let removed = w.vm.get(&position).is_none();
        if w2::action_state(&w.vm, &r.order) != Some(COMPLETED) {
            return Err("a position-cut order is not Completed after the cut".into());
        }
        // documented: the rent goes to the owner if the position was removed, to the keeper otherwise
        expected_rent_receiver = if removed { owner } else { keeper };
        let h = w2::action_header(&w.vm, &r.order).ok_or("order header unreadable")?;
        if *h.rent_receiver() != expected_rent_receiver {
            return Err(format!("position cut (position removed: {removed}): the order names {} as rent receiver, documented is {}", h.rent_receiver(), if removed { "the owner" } else { "the keeper" }));
        }
        if !h.should_unwrap_native_token() || h.receiver() != owner {
            return Err("a position-cut order must pay the owner and unwrap native tokens".into());
        }
        rec.class(match (cut, removed) {
            (2, _) => "liquidation_order",
            (_, true) => "adl_order_position_removed",
            _ => "adl_order_position_kept",
        });
        state = COMPLETED;
        created_at = w.sys.unix_timestamp;
    } else {
        for i in act.prepare(w) {
            w.vm.process(&i).map_err(|e| format!("prepare failed: {e:?}"))?;
        }
        w.vm.process(&act.create(w, unwrap)).map_err(|e| format!("creation of a well-formed action failed: {e:?} {:?}", svm::take_logs().last()))?;
        if w2::action_state(&w.vm, &act.key()) != Some(PENDING) {
            return Err("a freshly created action is not Pending".into());
        }
        let h = w2::action_header(&w.vm, &act.key()).ok_or("header unreadable")?;
        if h.receiver() != receiver || *h.rent_receiver() != owner || h.should_unwrap_native_token() != unwrap {
            return Err(format!("header after creation: receiver {} rent receiver {} unwrap {}", h.receiver(), h.rent_receiver(), h.should_unwrap_native_token()));
        }
        state = PENDING;
        created_at = w.sys.unix_timestamp;
        rec.class(["deposit", "withdrawal", "swap_order", "decrease_order"][kind as usize]);
    }
    rec.class_if(built.native_in, "native_token_escrowed");
    rec.class_if(built.native_out, "native_token_output");
    rec.class_if(!built.native_in && !built.native_out, "no_native_token_involved");
    rec.class_if(distinct, "distinct_receiver");
    rec.class_if(distinct && !c.receiver_has_atas, "distinct_receiver_without_atas");
    rec.class_if(unwrap && !is_cut, "unwrap_flag_set");
    rec.class_if(!unwrap, "unwrap_flag_clear");

    let all_escrows: Vec<Pubkey> = act.routing(w, false).iter().map(|x| x.0).collect();
    let mut unwrapped_to_owner: u64 = 0;
    let mut unwrapped_to_receiver: u64 = 0;
    let mut partially_closed = false;

    let mut steps = c.steps.clone();
    steps.push(NStep::Close { by: 0 });
    for (si, step) in steps.iter().enumerate() {
        if si + 1 == steps.len() && state == CLOSED {
            break;
        }
        match step {
            NStep::Exec { by, mode } => {
                let actor = [keeper, keeper2, owner, stranger][*by as usize % 4];
                let is_keeper = *by % 4 < 2;
                match mode % 3 {
                    1 => {
                        let d = (created_at + 3601 - w.sys.unix_timestamp).max(1);
                        w.advance(d);
                        w.refresh_prices()?;
                    }
                    2 => w.advance(w2::HEARTBEAT as i64 + 1),
                    _ => {
                        w.advance(1);
                        w.refresh_prices()?;
                    }
                }
                if needs_claimables {
                    for i in w.ixs_prepare_claimables(keeper2, m, owner, true) {
                        w.vm.process(&i).map_err(|e| format!("claimables: {e:?}"))?;
                    }
                }
                let expect_soft = mode % 3 == 1 || c.impossible_min;
                let images_before = if expect_soft && state == PENDING && is_keeper { Some(w.market_images()) } else { None };
                let escrow_before: Vec<u64> = all_escrows.iter().map(|e| token_amount(&w.vm, e)).collect();
                let tokens_before = w2::token_accounts(&w.vm);
                let actor_lamports = w2::lamports(&w.vm, &actor);
                let res = w.vm.process(&act.execute(w, actor, c.fee as u64));
                let expect_ok = is_keeper && state == PENDING && mode % 3 != 2;
                match (&res, expect_ok) {
                    (Ok(()), false) => return Err(format!("step {si} {step:?}: execution succeeded although it must be rejected (model state {state})")),
                    (Err(e), true) => return Err(format!("step {si} {step:?}: execution by a keeper of a Pending action with fresh prices failed: {e:?} {:?}", svm::take_logs().last())),
                    _ => {}
                }
                if res.is_ok() {
                    let new_state = w2::action_state(&w.vm, &act.key()).ok_or("action vanished during execution")?;
                    if new_state != COMPLETED && new_state != CANCELLED {
                        return Err(format!("step {si}: successful execution left the action in state {new_state}"));
                    }
                    if expect_soft && new_state != CANCELLED {
                        return Err(format!("step {si}: execution completed although it had to fail softly"));
                    }
                    let paid = (c.fee as u64).min(act.execution_lamports());
                    let got = w2::lamports(&w.vm, &actor) as i128 - actor_lamports as i128;
                    if got != paid as i128 {
                        return Err(format!("step {si}: executor lamports changed by {got}, expected the execution fee {paid}"));
                    }
                    *fees.entry(actor).or_default() += paid;
                    if new_state == CANCELLED {
                        if let Some(before) = &images_before {
                            if let Some(d) = World::image_diff(before, &w.market_images()) {
                                return Err(format!("step {si}: a failed (cancelled) execution changed a market: {d}"));
                            }
                        }
                        let escrow_after: Vec<u64> = all_escrows.iter().map(|e| token_amount(&w.vm, e)).collect();
                        if escrow_after != escrow_before {
                            return Err(format!("step {si}: a cancelled execution changed the escrow balances: {escrow_before:?} -> {escrow_after:?}"));
                        }
                        if w2::token_accounts(&w.vm) != tokens_before {
                            return Err(format!("step {si}: a cancelled execution moved tokens"));
                        }
                        rec.class("soft_cancelled");
                    } else {
                        // nothing may reach the receiver or the owner before the close: outputs wait in escrow
                        for party in [owner, receiver] {
                            for mint in [WSOL, lm, sm] {
                                let k = ata(&party, &mint);
                                let before = tokens_before.get(&k).map(|t| t.2).unwrap_or(0);
                                if token_amount(&w.vm, &k) != before {
                                    return Err(format!("step {si}: the execution changed the wallet token account {k} directly"));
                                }
                            }
                        }
                        rec.class("completed");
                    }
                    state = new_state;
                } else {
                    rec.class_if(is_keeper && state == PENDING, "hard_failure");
                    rec.class_if(!is_keeper, "execution_by_non_keeper_rejected");
                    rec.class_if(is_keeper && (state == COMPLETED || state == CANCELLED), "re_execution_rejected");
                }
            }
            NStep::Close { by } => {
                let actor = [owner, keeper, keeper2, stranger][*by as usize % 4];
                let by_keeper = by % 4 == 1 || by % 4 == 2;
                let expect_ok = match by % 4 {
                    0 => state != CLOSED,
                    1 | 2 => state == COMPLETED || state == CANCELLED,
                    _ => false,
                };
                if partially_closed && expect_ok {
                    // An earlier keeper close stopped half-way (KF-C23-1): the escrows it handled are
                    // closed, so the account validation of every later close fails until somebody
                    // re-creates them. Judged strictly unless the finding is listed as open; if it is,
                    // the owner re-creates the escrow accounts and the case goes on under the full ledger.
                    let mut probe = w.vm.clone();
                    if let Err(e) = probe.process(&act.close(w, actor, unwrap, owner, receiver)) {
                        if !kf_open {
                            return Err(format!("step {si} {step:?}: after a keeper close that stopped at a missing ATA of the receiver (the escrows handled before it are already closed, the action is still {}), the close by {} fails: {e:?} {:?}", if state == COMPLETED { "Completed" } else { "Cancelled" }, if by % 4 == 0 { "the owner" } else { "a keeper" }, svm::take_logs().last()));
                        }
                        if w2::code(&e) != 3012 {
                            return Err(format!("step {si}: KF-C23-1 signature is AccountNotInitialized (3012), got {e:?}"));
                        }
                        rec.excluded("KF-C23-1");
                        for (e, mint, _) in act.routing(w, state == COMPLETED) {
                            if w.vm.get(&e).is_none() {
                                w.vm.process(&w.ix_prepare_ata(owner, act.key(), mint)).map_err(|e| format!("re-creating an escrow: {e:?}"))?;
                            }
                        }
                    }
                }
                let routing = act.routing(w, state == COMPLETED);
                let pred = predict_close(w, &routing, &act.key(), owner, receiver, expected_rent_receiver, actor, unwrap);
                let pre_wallets: Vec<u64> = wallets.iter().map(|k| w2::lamports(&w.vm, k)).collect();
                let pre_tokens = w2::token_accounts(&w.vm);
                let name = |mint: &Pubkey| if *mint == WSOL { "WSOL" } else if *mint == lm { "LONG" } else if *mint == sm { "SHORT" } else { "MKT" };
                let pre_escrows: Vec<(&str, &str, u64, u64)> = routing.iter().map(|(e, mint, to_receiver)| (name(mint), if *to_receiver { "to receiver" } else { "to owner" }, token_amount(&w.vm, e), w2::lamports(&w.vm, e))).collect();
                let res = w.vm.process(&act.close(w, actor, unwrap, owner, receiver));
                match (&res, expect_ok) {
                    (Ok(()), false) => return Err(format!("step {si} {step:?}: close succeeded in model state {state} (0 pending, 1 completed, 2 cancelled, 3 closed) although this caller may not close it")),
                    (Err(e), true) => return Err(format!("step {si} {step:?}: close failed in model state {state}: {e:?} {:?}", svm::take_logs().last())),
                    _ => {}
                }
                if let Err(e) = &res {
                    rec.class_if(by % 4 == 3 && state != CLOSED, "stranger_close_rejected");
                    rec.class_if(by_keeper && state == PENDING, "keeper_close_of_pending_rejected");
                    if by_keeper && state == PENDING && w2::code(e) != 6004 {
                        return Err(format!("step {si}: keeper close of a Pending action failed with {e:?}, expected PermissionDenied (6004)"));
                    }
                    continue;
                }
                // ---- the per-close ledger
                for (i, k) in wallets.iter().enumerate() {
                    if wallets[..i].contains(k) {
                        continue;
                    }
                    let d = w2::lamports(&w.vm, k) as i128 - pre_wallets[i] as i128;
                    let e = pred.wallets.get(k).copied().unwrap_or(0);
                    if d != e {
                        let who = if *k == owner && *k == receiver { "the owner (= receiver)" } else if *k == owner { "the owner" } else if *k == receiver { "the receiver" } else if *k == keeper { "the keeper" } else if *k == keeper2 { "the second keeper" } else if *k == stranger { "the stranger" } else { "the store wallet" };
                        return Err(format!("step {si} {step:?} (state {state}, unwrap {unwrap}, rent receiver {}): lamports of {who} changed by {d}, the documented routing gives {e} [escrows before the close (mint, documented recipient, amount, lamports): {pre_escrows:?}]", if expected_rent_receiver == owner { "owner" } else { "keeper" }));
                    }
                }
                let post_tokens = w2::token_accounts(&w.vm);
                let keys: BTreeSet<Pubkey> = pre_tokens.keys().chain(post_tokens.keys()).copied().collect();
                for k in keys {
                    if pred.closed.contains(&k) {
                        if post_tokens.contains_key(&k) {
                            return Err(format!("step {si}: escrow account {k} survived the close"));
                        }
                        continue;
                    }
                    let d = post_tokens.get(&k).map(|t| t.2 as i128).unwrap_or(0) - pre_tokens.get(&k).map(|t| t.2 as i128).unwrap_or(0);
                    let e = pred.tokens.get(&k).copied().unwrap_or(0);
                    if d != e {
                        let (mint, auth) = post_tokens.get(&k).or(pre_tokens.get(&k)).map(|t| (t.0, t.1)).unwrap();
                        return Err(format!("step {si} {step:?} (state {state}, unwrap {unwrap}): token account {k} (mint {mint}, authority {auth}) changed by {d}, the documented routing gives {e}"));
                    }
                    if !pre_tokens.contains_key(&k) && !pred.created.contains(&k) {
                        return Err(format!("step {si}: unexpected new token account {k}"));
                    }
                }
                if pred.skipped {
                    if w2::action_state(&w.vm, &act.key()) != Some(state) {
                        return Err(format!("step {si}: a keeper close that stops at a missing ATA must leave the action in place and in its state"));
                    }
                    rec.class("keeper_close_stopped_at_missing_ata");
                    partially_closed = true;
                    unwrapped_to_owner += pred.unwrapped_to_owner;
                    unwrapped_to_receiver += pred.unwrapped_to_receiver;
                    continue;
                }
                if w.vm.get(&act.key()).is_some() {
                    return Err(format!("step {si}: close succeeded but the action account still exists"));
                }
                for e in &all_escrows {
                    if w.vm.get(e).is_some() {
                        return Err(format!("step {si}: escrow account {e} survived the close"));
                    }
                }
                unwrapped_to_owner += pred.unwrapped_to_owner;
                unwrapped_to_receiver += pred.unwrapped_to_receiver;
                rec.class(match (state, by % 4) {
                    (PENDING, _) => "pending_closed_by_owner",
                    (CANCELLED, 0) => "cancelled_closed_by_owner",
                    (CANCELLED, _) => "cancelled_closed_by_keeper",
                    (_, 0) => "completed_closed_by_owner",
                    _ => "completed_closed_by_keeper",
                });
                rec.class_if(pred.split, "unwrapped_rent_receiver_differs_from_recipient");
                rec.class_if(pred.split && expected_rent_receiver == keeper, "unwrapped_rent_to_keeper");
                rec.class_if(pred.split && state == COMPLETED && distinct, "unwrapped_output_to_distinct_receiver");
                rec.class_if(pred.single, "unwrapped_single_recipient");
                rec.class_if(pred.unwrapped_to_owner > 0 && state != COMPLETED, "unwrapped_input_back_to_owner");
                rec.class_if(pred.wrapped_native_delivery, "wrapped_native_delivered_as_tokens");
                rec.class_if(pred.plain_delivery_to_receiver && state == COMPLETED, "output_tokens_to_distinct_receiver");
                rec.class_if(pred.returned_to_owner && state != COMPLETED && distinct, "input_back_to_owner_not_receiver");
                rec.class_if(!pred.created.is_empty(), "owner_close_created_missing_ata");
                rec.class_if(expected_rent_receiver == keeper, "rents_to_keeper");
                if pred.unwrapped_to_owner + pred.unwrapped_to_receiver > 0 {
                    rec.class(["unwrap_in_deposit_close", "unwrap_in_withdrawal_close", "unwrap_in_swap_close", "unwrap_in_decrease_close", "unwrap_in_position_cut_close"][kind as usize]);
                }

                // ---- end-to-end ledger (S0 -> now)
                let tokens1 = post_tokens;
                let bal = |t: &BTreeMap<Pubkey, (Pubkey, Pubkey, u64)>, k: &Pubkey| t.get(k).map(|x| x.2 as i128).unwrap_or(0);
                let parties_atas: BTreeSet<Pubkey> = {
                    let mut mints = vec![WSOL, lm, sm];
                    mints.extend(w.markets.iter().map(|mi| mi.token));
                    mints.iter().flat_map(|mint| [ata(&owner, mint), ata(&receiver, mint)]).collect()
                };
                for (k, (mint, auth, amount)) in &tokens1 {
                    let before = bal(&tokens0, k);
                    if *amount as i128 != before && !parties_atas.contains(k) && *auth != w.store {
                        return Err(format!("after the close token account {k} (mint {mint}, authority {auth}) holds {amount}, before the action {before}: tokens went to a third party"));
                    }
                }
                for (k, (_, auth, amount)) in &tokens0 {
                    if !tokens1.contains_key(k) && *amount != 0 {
                        return Err(format!("token account {k} (authority {auth}) with {amount} tokens disappeared"));
                    }
                }
                {
                    let d_party = |party: &Pubkey, mint: &Pubkey| bal(&tokens1, &ata(party, mint)) - bal(&tokens0, &ata(party, mint));
                    let mut mints = vec![WSOL, lm, sm];
                    mints.extend(w.markets.iter().map(|mi| mi.token));
                    if state != COMPLETED {
                        // the owner is whole again, the receiver holds nothing of it
                        for mint in &mints {
                            let expect_owner = if *mint == WSOL { -(unwrapped_to_owner as i128) } else { 0 };
                            if d_party(&owner, mint) != expect_owner {
                                return Err(format!("a {} action was closed: the owner's balance of mint {mint} changed by {} since before the creation (unwrapped back to the owner's wallet: {unwrapped_to_owner})", if state == PENDING { "pending" } else { "cancelled" }, d_party(&owner, mint)));
                            }
                            if distinct && d_party(&receiver, mint) != 0 {
                                return Err(format!("a {} action was closed: the receiver's balance of mint {mint} changed by {}", if state == PENDING { "pending" } else { "cancelled" }, d_party(&receiver, mint)));
                            }
                        }
                        if unwrapped_to_receiver != 0 {
                            return Err("a pending/cancelled action unwrapped tokens to the receiver".into());
                        }
                        for mint in &mints {
                            let v = vault_of(&w.store, mint);
                            if bal(&tokens1, &v) != bal(&tokens0, &v) {
                                return Err(format!("the vault of mint {mint} changed although the action never completed"));
                            }
                        }
                    } else {
                        for mint in [WSOL, lm, sm] {
                            let store_side = |t: &BTreeMap<Pubkey, (Pubkey, Pubkey, u64)>| -> i128 { t.values().filter(|(mi, au, _)| *mi == mint && *au == w.store).map(|x| x.2 as i128).sum() };
                            let d_store = store_side(&tokens1) - store_side(&tokens0);
                            let d_owner = d_party(&owner, &mint);
                            let d_recv = if distinct { d_party(&receiver, &mint) } else { 0 };
                            let unwrapped = if mint == WSOL { unwrapped_to_owner as i128 + unwrapped_to_receiver as i128 } else { 0 };
                            if d_owner + d_recv + d_store + unwrapped != 0 {
                                return Err(format!("mint {mint}: owner {d_owner}, receiver {d_recv}, store-held accounts (vault, claimable) {d_store}, unwrapped to wallets {unwrapped}: not conserved"));
                            }
                            // outputs belong to the receiver: the owner's wallet may only shrink (the input)
                            if distinct && d_owner > 0 {
                                return Err(format!("mint {mint}: the owner's balance grew by {d_owner} although the action completed with a distinct receiver"));
                            }
                        }
                        if distinct && unwrapped_to_owner != 0 {
                            return Err(format!("a completed action with a distinct receiver unwrapped {unwrapped_to_owner} to the owner"));
                        }
                        for (mi, info) in w.markets.iter().enumerate() {
                            let d_supply = w2::mint_supply(&w.vm, &info.token) as i128 - supplies0[mi] as i128;
                            let d_owner = d_party(&owner, &info.token);
                            let d_recv = if distinct { d_party(&receiver, &info.token) } else { 0 };
                            let v = vault_of(&w.store, &info.token);
                            let d_vault = bal(&tokens1, &v) - bal(&tokens0, &v);
                            if d_owner + d_recv + d_vault != d_supply {
                                return Err(format!("market token {mi}: supply changed by {d_supply}, owner by {d_owner}, receiver by {d_recv}, vault by {d_vault}"));
                            }
                            if distinct && d_owner > 0 {
                                return Err(format!("market token {mi}: the owner's balance grew by {d_owner} although the receiver is distinct"));
                            }
                        }
                    }
                }
                if !is_cut {
                    // ---- lamports: every account, net of wrapped-SOL balances
                    let is_claimable = |k: &Pubkey| tokens1.get(k).map(|t| t.1 == w.store).unwrap_or(false);
                    let mut new_claimable: i128 = 0;
                    let mut new_other: i128 = 0;
                    for (k, a) in &w.vm.accounts {
                        if !s0.contains_key(k) {
                            if is_claimable(k) {
                                new_claimable += non_token_lamports(a);
                            } else {
                                new_other += non_token_lamports(a);
                            }
                        }
                    }
                    let mut gone: i128 = 0;
                    for (k, a) in &s0 {
                        match w.vm.get(k) {
                            None => gone += non_token_lamports(a),
                            Some(b) => {
                                if !wallets.contains(k) && non_token_lamports(a) != non_token_lamports(b) {
                                    return Err(format!("lamports (net of wrapped SOL) of account {k} changed {} -> {}", non_token_lamports(a), non_token_lamports(b)));
                                }
                            }
                        }
                    }
                    let delta = |k: &Pubkey| w2::lamports(&w.vm, k) as i128 - s0.get(k).map(|a| a.lamports as i128).unwrap_or(0);
                    let earned = |k: &Pubkey| fees.get(k).copied().unwrap_or(0) as i128;
                    let total_fees: i128 = fees.values().map(|f| *f as i128).sum();
                    if delta(&keeper) != earned(&keeper) {
                        return Err(format!("keeper lamports changed by {}, execution fees earned {}", delta(&keeper), earned(&keeper)));
                    }
                    if delta(&keeper2) != earned(&keeper2) - new_claimable {
                        return Err(format!("second keeper lamports changed by {}, execution fees earned {}, rent paid for new claimable accounts {new_claimable}", delta(&keeper2), earned(&keeper2)));
                    }
                    if delta(&stranger) != 0 {
                        return Err(format!("stranger lamports changed by {}", delta(&stranger)));
                    }
                    if delta(&w.store_wallet) != 0 {
                        return Err(format!("store wallet lamports changed by {}", delta(&w.store_wallet)));
                    }
                    if distinct && delta(&receiver) != unwrapped_to_receiver as i128 {
                        return Err(format!("receiver lamports changed by {}, unwrapped output {unwrapped_to_receiver}", delta(&receiver)));
                    }
                    let expect_owner = gone - total_fees - new_other + unwrapped_to_owner as i128 + if distinct { 0 } else { unwrapped_to_receiver as i128 };
                    if delta(&owner) != expect_owner {
                        return Err(format!("owner lamports changed by {}; accounts that are gone (position) {gone}, execution fees paid {total_fees}, rent left in accounts created for the action {new_other}, unwrapped to the owner {}: expected {expect_owner}", delta(&owner), unwrapped_to_owner));
                    }
                } else {
                    if delta_lamports(w, &s0, &stranger) != 0 {
                        return Err("stranger lamports changed".into());
                    }
                }
                state = CLOSED;
            }
        }
    }
    w.check_solvency().map_err(|e| format!("end of case: {e}"))?;
    rec.nontrivial_if(c.steps.len() >= 2 && (built.native_in || built.native_out || distinct));
    svm::set_sysvars(svm::Sysvars::default());
    Ok(())
}

fn delta_lamports(w: &World, s0: &BTreeMap<Pubkey, svm::Acct>, k: &Pubkey) -> i128 {
    w2::lamports(&w.vm, k) as i128 - s0.get(k).map(|a| a.lamports as i128).unwrap_or(0)
}

/// The minimal case of KF-C23-1 (shrunk by the search): a withdrawal from N0 (WSOL / SHORT) with the
/// unwrap flag and a receiver that owns no token accounts is executed by a keeper, closed by the
/// keeper (stops at the SHORT escrow: the receiver has no SHORT ATA; the market-token escrow and the
/// WSOL escrow are already closed), then the owner's close fails.
fn kf_c23_1_witness() -> NativeCase {
    NativeCase { kind: 1, shape: 0, amount: 0, unwrap: true, distinct_receiver: true, receiver_has_atas: false, impossible_min: false, extra_lamports: 0, fee: 0, steps: vec![NStep::Exec { by: 0, mode: 0 }, NStep::Close { by: 1 }] }
}

/// C23 on the native world: wrapped-SOL escrows, unwrapping closes, distinct receivers.
pub fn run_c23_native(ctx: &mut Ctx) {
    ctx.rule("search `lifecycle_native`: cases = one action in the native world (seeded six-market world + wrapped-SOL mint `spl_token::native_mint::ID` as long token of market N0 [synthetic index, short = SHORT] and as index and short token of market N1 [long = LONG]; users hold WSOL wrapped by system transfer + sync_native): a deposit (into N0 / N1 / the non-native market 0; both tokens, long only, short only), a withdrawal (same markets; plain, or with the WSOL side swapped out / the LONG side swapped into WSOL), a market swap (WSOL->SHORT, SHORT->WSOL, WSOL->LONG, LONG->WSOL, LONG->SHORT, SHORT->WSOL->LONG, LONG->SHORT->WSOL), a market decrease of a 5x long opened by a real increase order (WSOL collateral in N0 or N1, SHORT collateral in N0 [profit paid in WSOL], LONG collateral in market 0; output in the collateral token or swapped WSOL<->SHORT; full / a third; optional unreachable minimum / acceptable price), each created with should_unwrap_native_token on/off and receiver = owner or a distinct wallet that owns ATAs for the output tokens or owns none, execution lamports 300000..2.3M, fee argument 0..3M; or a position-cut order created by the keeper (auto_deleverage of a third / of the whole position after a 30 % index move and update_adl_state, or liquidate after a 19.5 % adverse move; WSOL or SHORT collateral in N0; always unwrap, receiver = owner); followed by a script of 1..5 steps (execute by keeper / second keeper / owner / stranger with fresh prices, after the request expired, or with feeds older than the heartbeat; close by owner / keeper / second keeper / stranger, built as the SDK builds it: real ATAs, or with the unwrap flag the wallet itself wherever the ATA of the native mint is expected) plus a final owner close. Oracle: (1) state machine Pending -> {Completed, Cancelled} -> Closed as in `lifecycle` (keepers execute only Pending actions with usable prices and earn exactly min(fee, execution lamports); expired / unreachable-minimum executions cancel and leave every market image, every token account and the escrows unchanged; a completed execution changes no wallet token account: outputs wait in escrow; owner closes any live state, keepers only terminal states [PermissionDenied otherwise], a stranger never; the header records receiver, rent receiver = owner and the unwrap flag; a position-cut order is Completed, unwraps, pays the owner and names the keeper as rent receiver exactly when the position was not removed); (2) per successful close, predicted from the state just before it and the documented routing (deposit: market tokens -> receiver, initial tokens -> owner; withdrawal: market tokens -> owner, final tokens -> receiver; order: initial collateral -> owner, every output escrow -> receiver): each escrow's token amount arrives in the recipient's ATA (created at the closing owner's expense of exactly one token-account rent if missing), or, for WSOL with the unwrap flag and a non-zero amount, as lamports in the recipient's wallet; the rent of every escrow (its lamports minus, for WSOL, its amount) and the lamports left in the action account go to the rent receiver; lamports of owner, receiver, both keepers, stranger and the store wallet and the amount of EVERY token account in the world must change by exactly the predicted deltas, the escrows and the action must be gone; a keeper close that meets a non-empty escrow whose target ATA is missing must stop there, keep the action and its state and lose nothing; (3) end to end (state before the action was prepared -> after the final close): pending / cancelled => the owner's balance of every mint is what it was (WSOL reduced by exactly what was unwrapped into the owner's wallet), a distinct receiver holds nothing, no vault changed; completed => per mint (WSOL, LONG, SHORT) owner + receiver + store-held accounts (vaults, claimables) + lamports unwrapped to wallets sum to zero, market tokens against mint supply, with a distinct receiver the owner's balances never grow and nothing is unwrapped to the owner; no third-party token account changed; lamports net of wrapped-SOL balances: keepers gained exactly their fees (second keeper minus the rent of claimable accounts it created), stranger and store wallet 0, a distinct receiver exactly the unwrapped output, no other pre-existing account changed, owner = lamports of accounts that are gone (removed position) - fees - rent left in accounts created for the action (receiver ATAs) + unwrapped lamports; the C22 solvency invariant holds at the end; non-trivial = scripts of at least two steps that involve the native mint or a distinct receiver");
    ctx.assume("svm-lite runs the real SPL token program (native accounts: transfer moves lamports with the tokens, close_account of a native account pays out all lamports) and a system program without rent-exemption checks: an unwrap that would leave a brand-new receiver wallet below the rent-exempt minimum is not rejected here (the receiver is funded); the native mint account itself is written directly (genesis account); closes are built with the SDK convention (`get_ata_or_owner`): passing a real ATA for the native mint although the unwrap flag is set is not generated (the program rejects it with InvalidArgument before moving anything); the lamports a keeper spends inside the position-cut instruction itself (order rent, minimum execution fee, refund from the position) are not judged here, only the close of the cut order; shifts, GLV actions, increase orders as the measured action and limit orders are not part of this search");
    let kf = ctx.finding_open("KF-C23-1");
    {
        let case = kf_c23_1_witness();
        let r = crate::engine::no_panic(|| check_native(&case, &mut Rec::default(), false)).and_then(|r| r);
        let reproduces = matches!(&r, Err(m) if m.contains("stopped at a missing ATA"));
        ctx.known_witness("KF-C23-1", reproduces, "a keeper close of a Completed withdrawal (N0, unwrap flag, receiver != owner without a SHORT ATA) closes the market-token and WSOL escrows, stops at the SHORT escrow (ATA missing, init_if_needed = false) and returns Ok; the withdrawal stays Completed but every later close_withdrawal, also by the owner, fails with AccountNotInitialized (3012) because the closed escrows no longer pass account validation; the funds are recoverable only after somebody re-creates the closed escrow ATAs");
    }
    let n = ctx.cases(2_000, 100_000);
    ctx.search("lifecycle_native", n, native_case, move |c, rec| check_native(c, rec, kf));
    for (class, floor) in [
        ("deposit", 140),
        ("withdrawal", 140),
        ("swap_order", 220),
        ("decrease_order", 140),
        ("adl_order_position_kept", 45),
        ("adl_order_position_removed", 45),
        ("liquidation_order", 45),
        ("native_token_escrowed", 130),
        ("native_token_output", 460),
        ("no_native_token_involved", 250),
        ("distinct_receiver", 410),
        ("distinct_receiver_without_atas", 95),
        ("unwrap_flag_set", 410),
        ("unwrap_flag_clear", 270),
        ("completed", 245),
        ("soft_cancelled", 210),
        ("hard_failure", 40),
        ("re_execution_rejected", 280),
        ("execution_by_non_keeper_rejected", 255),
        ("stranger_close_rejected", 135),
        ("keeper_close_of_pending_rejected", 115),
        ("pending_closed_by_owner", 205),
        ("cancelled_closed_by_owner", 155),
        ("cancelled_closed_by_keeper", 55),
        ("completed_closed_by_owner", 300),
        ("completed_closed_by_keeper", 110),
        ("unwrapped_rent_receiver_differs_from_recipient", 58),
        ("unwrapped_rent_to_keeper", 25),
        ("unwrapped_output_to_distinct_receiver", 29),
        ("unwrapped_single_recipient", 95),
        ("unwrapped_input_back_to_owner", 48),
        ("wrapped_native_delivered_as_tokens", 70),
        ("output_tokens_to_distinct_receiver", 120),
        ("input_back_to_owner_not_receiver", 170),
        ("owner_close_created_missing_ata", 18),
        ("keeper_close_stopped_at_missing_ata", 3),
        ("rents_to_keeper", 45),
        ("unwrap_in_deposit_close", 17),
        ("unwrap_in_withdrawal_close", 15),
        ("unwrap_in_swap_close", 44),
        ("unwrap_in_decrease_close", 13),
        ("unwrap_in_position_cut_close", 50),
    ] {
        ctx.floor(&format!("lifecycle_native:{class}"), floor);
    }
}
