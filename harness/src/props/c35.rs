//! C35 Stored names read back exactly as they were accepted.

use crate::engine::{Ctx, Rec};
use crate::svm;
use anchor_lang::prelude::Pubkey;
use bytemuck::Zeroable;
use gmsol_store::states::{Market, RoleStore, Store};
use gmsol_utils::fixed_str::{bytes_to_fixed_str, fixed_str_to_bytes};
use proptest::prelude::*;
use serde::{Deserialize, Serialize};

#[derive(Debug, Clone, Serialize, Deserialize)]
pub struct Case {
    pub name: String,
}

const ALPHABET: [&str; 12] = ["a", "Z", "_", "7", "\0", "é", "ß", "€", "中", "😀", " ", "\u{7f}"];

/// Strings with an exactly chosen byte length (capacity boundaries are over-weighted), built from
/// ASCII, NUL and 2/3/4-byte UTF-8 characters that may straddle the limit.
pub fn name_strategy() -> impl Strategy<Value = Case> {
    let len = prop_oneof![
        4 => 0usize..=70,
        2 => prop_oneof![Just(31usize), Just(32), Just(33)],
        2 => prop_oneof![Just(63usize), Just(64), Just(65)],
        1 => 28usize..=36,
        1 => 60usize..=68,
    ];
    let nul_mode = prop_oneof![6 => Just(0u8), 1 => Just(1u8), 1 => Just(2u8)];
    (len, proptest::collection::vec(0usize..ALPHABET.len(), 0..72), nul_mode).prop_map(|(target, picks, nul_mode)| {
        let mut s = String::new();
        for p in picks {
            let mut c = ALPHABET[p];
            if c == "\0" && nul_mode == 0 {
                c = "n";
            }
            if s.len() + c.len() <= target {
                s.push_str(c);
            }
        }
        while s.len() < target {
            s.push('a');
        }
        if nul_mode == 2 && !s.is_empty() {
            // trailing NUL
            s.pop();
            while !s.is_empty() && s.len() + 1 > target { s.pop(); }
            s.push('\0');
            while s.len() < target { s.insert(0, 'b'); }
        }
        Case { name: s }
    })
}

fn roundtrip<const N: usize>(name: &str, rec: &mut Rec) -> Result<(), String> {
    match fixed_str_to_bytes::<N>(name) {
        Ok(bytes) => {
            rec.class(if N == 32 { "accepted32" } else { "accepted64" });
            rec.class_if(name.len() == N, "accepted_exact_fill");
            match bytes_to_fixed_str::<N>(&bytes) {
                Ok(back) if back == name => Ok(()),
                Ok(back) => Err(format!("N={N}: accepted {name:?} reads back as {back:?}")),
                Err(e) => Err(format!("N={N}: accepted {name:?} ({} bytes) cannot be read back: {e}", name.len())),
            }
        }
        Err(_) => {
            rec.class(if N == 32 { "rejected32" } else { "rejected64" });
            // Rejection is only legitimate for names that could not be read back.
            if name.len() < N && !name.contains('\0') {
                Err(format!("N={N}: representable name {name:?} was rejected"))
            } else {
                Ok(())
            }
        }
    }
}

fn role_flow(name: &str, rec: &mut Rec) -> Result<(), String> {
    let mut roles = RoleStore::zeroed();
    let who = svm::key_of("c35-member");
    if roles.enable_role(name).is_err() {
        rec.class("role_rejected");
        if roles.num_roles() != 0 {
            return Err(format!("rejected role {name:?} left state behind"));
        }
        if name.len() < 32 && !name.contains('\0') {
            return Err(format!("representable role name {name:?} was rejected"));
        }
        return Ok(());
    }
    rec.class("role_accepted");
    let listed: Vec<String> = roles.roles().map(|r| r.map(|s| s.to_string()).unwrap_or_else(|e| format!("<unreadable: {e}>"))).collect();
    if listed != vec![name.to_string()] {
        return Err(format!("accepted role {name:?} is listed as {listed:?}"));
    }
    roles.grant(&who, name).map_err(|e| format!("accepted role {name:?} cannot be granted: {e}"))?;
    match roles.has_role(&who, name) {
        Ok(true) => {}
        other => return Err(format!("accepted+granted role {name:?}: has_role = {other:?}")),
    }
    roles.disable_role(name).map_err(|e| format!("accepted role {name:?} cannot be disabled: {e}"))?;
    if roles.has_role(&who, name).is_ok() {
        return Err(format!("disabled role {name:?} still answers has_role"));
    }
    roles.enable_role(name).map_err(|e| format!("role {name:?} cannot be re-enabled: {e}"))?;
    roles.revoke(&who, name).map_err(|e| format!("accepted role {name:?} cannot be revoked: {e}"))?;
    if roles.num_members() != 0 {
        return Err("member not removed after last revoke".into());
    }
    Ok(())
}

fn store_and_market(name: &str, rec: &mut Rec) -> Result<(), String> {
    svm::init();
    let mut store = Store::zeroed();
    let k = |s: &str| svm::key_of(s);
    match store.init(k("auth"), name, 255, k("recv"), k("hold")) {
        Ok(()) => {
            rec.class("store_key_accepted");
            match store.key() {
                Ok(back) if back == name => {}
                other => return Err(format!("store key {name:?} reads back as {other:?}")),
            }
        }
        Err(_) => {
            if name.len() < 32 && !name.contains('\0') {
                return Err(format!("representable store key {name:?} rejected"));
            }
        }
    }
    let mut market = Market::default();
    match market.init(254, k("store"), name, k("mt"), k("idx"), k("long"), k("short"), true) {
        Ok(()) => {
            rec.class("market_name_accepted");
            match market.name() {
                Ok(back) if back == name => {}
                other => return Err(format!("market name {name:?} reads back as {other:?}")),
            }
        }
        Err(_) => {
            if name.len() < 64 && !name.contains('\0') {
                return Err(format!("representable market name {name:?} rejected"));
            }
        }
    }
    Ok(())
}

pub fn check(case: &Case, rec: &mut Rec) -> Result<(), String> {
    let name = case.name.as_str();
    let n = name.len();
    rec.class_if(n == 32 || n == 64, "exact_fill");
    rec.class_if(name.contains('\0'), "contains_nul");
    rec.class_if(n > 64, "over_capacity");
    rec.class_if(!name.is_ascii(), "multibyte");
    rec.nontrivial_if((28..=36).contains(&n) || (60..=68).contains(&n) || name.contains('\0') || !name.is_ascii());
    roundtrip::<32>(name, rec)?;
    roundtrip::<64>(name, rec)?;
    role_flow(name, rec)?;
    store_and_market(name, rec)?;
    Ok(())
}

pub fn run(ctx: &mut Ctx) {
    ctx.rule("cases = strings of exactly chosen byte length 0..=70 (31/32/33 and 63/64/65 over-weighted) from ASCII, NUL and 2/3/4-byte UTF-8; oracle = accepted => reads back identical (fixed_str N=32/64, role enable->list->grant->has_role->disable->revoke, Store::init key, Market::init name), rejected => name was not representable; non-trivial = length within 4 of a capacity, NUL inside, or multi-byte");
    ctx.assume("timelock executor role names and token-config names are stored through the same fixed_str functions; their instruction paths are exercised in C19/C36 worlds, not here");
    let n = ctx.cases(60_000, 3_000_000);
    ctx.search("names", n, name_strategy, check);
    ctx.floor("names:exact_fill", 500);
    ctx.floor("names:contains_nul", 500);
    // instruction path (svm-lite world W1)
    crate::props::c18i::run_c35_instr(ctx);
}
