//! C40 The SDK market model agrees with the on-chain program.

use crate::engine::{Ctx, Rec};
use crate::mgen::{self, History, Op, PricesSpec};
use crate::props::{c16, rvfix};
use crate::svm::{self, Svm, Sysvars};
use anchor_lang::prelude::AccountInfo;
use anchor_lang::solana_program::{entrypoint::ProgramResult, program_error::ProgramError, pubkey::Pubkey};
use gmsol_model::{
    action::decrease_position::{DecreasePositionFlags, DecreasePositionSwapType},
    price::Prices,
    Balance, Bank, BaseMarket, BorrowingFeeMarket, LiquidityMarket, LiquidityMarketMutExt, MarketAction, PerpMarket,
    PerpMarketMutExt, PositionImpactMarket, PositionImpactMarketMutExt, PositionMutExt, SwapMarket, SwapMarketMutExt,
};
use gmsol_programs::gmsol_store::{accounts::Market as SdkMarket, accounts::Position as SdkPosition, types as sdkt};
use gmsol_programs::model::{clock_verif, MarketModel, PositionModel, SwapPricingKind as SdkSwapPricing};
use gmsol_store::states::market::config::{MarketConfigFlag, MarketConfigKey};
use gmsol_store::states::market::revertible::{market::SwapPricingKind, Revertible};
use gmsol_store::states::Market;
use gmsol_utils::market::MarketFlag;
use proptest::prelude::*;
use serde::{Deserialize, Serialize};
use std::cell::RefCell;
use std::collections::BTreeMap;
use std::fmt::Debug;
use std::sync::Arc;

// ---------------------------------------------------------------------------------------------
// (1) Layout: every zero-copy account type of the program vs the SDK's declare_program type
// ---------------------------------------------------------------------------------------------

/// A pretty-printed `Debug` rendering, with the position of every line in the field tree.
struct Rendering {
    lines: Vec<String>,
    /// Field names (and `[i]` array positions) from the root to the line; `None` for closing lines.
    paths: Vec<Option<Vec<String>>>,
}

/// Parse `{:#?}` output: one path per line that carries a value (leaf) or opens a sub-structure.
fn parse_pretty(s: &str) -> Rendering {
    let mut lines = vec![];
    let mut paths = vec![];
    // stack of (indent, path component, next child index for unnamed children)
    let mut stack: Vec<(usize, String, usize)> = vec![];
    for line in s.lines() {
        lines.push(line.to_string());
        let indent = line.len() - line.trim_start().len();
        let body = line.trim();
        if body.is_empty() {
            paths.push(None);
            continue;
        }
        let closing = body.starts_with('}') || body.starts_with(']') || body.starts_with(')');
        while let Some((i, _, _)) = stack.last() {
            if *i >= indent {
                stack.pop();
            } else {
                break;
            }
        }
        if closing {
            paths.push(None);
            continue;
        }
        // `name: rest` (field) or a bare element of a sequence / tuple
        let (name, rest) = match body.find(": ") {
            Some(p) if !body[..p].is_empty() && body[..p].chars().all(|c| c.is_alphanumeric() || c == '_') => (body[..p].to_string(), &body[p + 2..]),
            _ => {
                let idx = match stack.last_mut() {
                    Some(top) => {
                        let i = top.2;
                        top.2 += 1;
                        i
                    }
                    None => 0,
                };
                (format!("[{idx}]"), body)
            }
        };
        let mut path: Vec<String> = stack.iter().map(|(_, n, _)| n.clone()).collect();
        path.push(name.clone());
        paths.push(Some(path));
        if rest.ends_with('{') || rest.ends_with('[') || rest.ends_with('(') {
            stack.push((indent, name, 0));
        }
    }
    Rendering { lines, paths }
}

/// Paths (without the root type line) of the lines that differ from the base rendering.
fn changed_paths(base: &Rendering, other: &str) -> Vec<Vec<String>> {
    let mut out = vec![];
    let mut n = 0;
    for (i, line) in other.lines().enumerate() {
        n += 1;
        match base.lines.get(i) {
            Some(b) if b == line => {}
            Some(_) => {
                if let Some(p) = &base.paths[i] {
                    out.push(p.iter().skip(1).cloned().collect());
                }
            }
            None => break,
        }
    }
    if n != base.lines.len() {
        // the structure changed (e.g. a string got longer): keep only the first difference
        out.truncate(1);
        if out.is_empty() {
            out.push(vec!["<length>".into()]);
        }
    }
    out
}

fn is_prefix(a: &[String], b: &[String]) -> bool {
    a.len() <= b.len() && a.iter().zip(b.iter()).all(|(x, y)| x == y)
}

#[derive(Debug, Default, Clone, Serialize, Deserialize)]
pub struct LayoutStat {
    pub name: String,
    pub size: usize,
    pub probes: usize,
    pub agreed: usize,
    pub program_hidden: usize,
    pub disagreements: Vec<String>,
}

/// Compare where each 8-byte word of the account lands in the program type and in the SDK type:
/// flip the word, render both views, and compare the paths of the fields whose rendering changed.
fn probe_layout<P, S>(name: &str, max_probes: usize, slice: usize, slices: usize) -> LayoutStat
where
    P: bytemuck::Pod + Debug,
    S: bytemuck::Pod + Debug,
{
    let mut st = LayoutStat { name: name.to_string(), size: std::mem::size_of::<P>(), ..Default::default() };
    if std::mem::size_of::<P>() != std::mem::size_of::<S>() {
        st.disagreements.push(format!("size: program {} bytes, SDK {} bytes", std::mem::size_of::<P>(), std::mem::size_of::<S>()));
        return st;
    }
    let n = st.size;
    let base: Vec<u8> = (0..n).map(|i| ((i * 7 + 3) % 200 + 1) as u8).collect();
    let p0 = parse_pretty(&format!("{:#?}", bytemuck::pod_read_unaligned::<P>(&base)));
    let s0 = parse_pretty(&format!("{:#?}", bytemuck::pod_read_unaligned::<S>(&base)));
    let words = n.div_ceil(8);
    let stride = (words / max_probes.max(1)).max(1);
    let mut w = slice * stride;
    while w < words {
        let off = w * 8;
        let mut bytes = base.clone();
        for b in &mut bytes[off..(off + 8).min(n)] {
            *b ^= 0x55;
        }
        let pc = changed_paths(&p0, &format!("{:#?}", bytemuck::pod_read_unaligned::<P>(&bytes)));
        let sc = changed_paths(&s0, &format!("{:#?}", bytemuck::pod_read_unaligned::<S>(&bytes)));
        st.probes += 1;
        if sc.is_empty() {
            st.disagreements.push(format!("bytes {off}..{}: no SDK field changes", off + 8));
        } else if pc.is_empty() {
            st.program_hidden += 1;
        } else {
            // every changed program path must correspond to a changed SDK path (same field, possibly
            // rendered at a different depth)
            let ok = pc.iter().all(|p| sc.iter().any(|s| is_prefix(p, s) || is_prefix(s, p)));
            if ok {
                st.agreed += 1;
            } else {
                st.disagreements.push(format!("bytes {off}..{}: program field {:?} vs SDK field {:?}", off + 8, pc.first().map(|p| p.join(".")), sc.first().map(|p| p.join("."))));
            }
        }
        w += stride * slices;
    }
    st
}


/// Negative control for the probe itself: two structs with the same fields in a different order.
#[derive(Debug, Clone, Copy, bytemuck::Pod, bytemuck::Zeroable)]
#[repr(C)]
struct CtlA {
    first: u64,
    second: u64,
    reserved: [u8; 16],
}
#[derive(Debug, Clone, Copy, bytemuck::Pod, bytemuck::Zeroable)]
#[repr(C)]
struct CtlB {
    second: u64,
    first: u64,
    reserved: [u8; 16],
}

type ProbeFn = fn(&str, usize, usize, usize) -> LayoutStat;

fn layout_table() -> Vec<(&'static str, ProbeFn)> {
    use gmsol_programs::gmsol_store::accounts as sdk;
    use gmsol_store::states as st;
    vec![
        ("Store", probe_layout::<st::Store, sdk::Store> as ProbeFn),
        ("Market", probe_layout::<st::Market, sdk::Market>),
        ("Position", probe_layout::<st::Position, sdk::Position>),
        ("Order", probe_layout::<st::Order, sdk::Order>),
        ("Deposit", probe_layout::<st::Deposit, sdk::Deposit>),
        ("Withdrawal", probe_layout::<st::Withdrawal, sdk::Withdrawal>),
        ("Shift", probe_layout::<st::Shift, sdk::Shift>),
        ("Glv", probe_layout::<st::Glv, sdk::Glv>),
        ("GlvDeposit", probe_layout::<st::GlvDeposit, sdk::GlvDeposit>),
        ("GlvWithdrawal", probe_layout::<st::GlvWithdrawal, sdk::GlvWithdrawal>),
        ("GlvShift", probe_layout::<st::GlvShift, sdk::GlvShift>),
        ("UserHeader", probe_layout::<st::UserHeader, sdk::UserHeader>),
        ("ReferralCodeV2", probe_layout::<st::user::ReferralCodeV2, sdk::ReferralCodeV2>),
        ("PriceFeed", probe_layout::<st::PriceFeed, sdk::PriceFeed>),
        ("Oracle", probe_layout::<st::Oracle, sdk::Oracle>),
        ("TokenMapHeader", probe_layout::<st::TokenMapHeader, sdk::TokenMapHeader>),
        ("GtExchange", probe_layout::<st::gt::GtExchange, sdk::GtExchange>),
        ("GtExchangeVault", probe_layout::<st::gt::GtExchangeVault, sdk::GtExchangeVault>),
        ("VirtualInventory", probe_layout::<st::market::virtual_inventory::VirtualInventory, sdk::VirtualInventory>),
        ("TradeData", probe_layout::<gmsol_store::events::TradeData, sdk::TradeData>),
    ]
}

#[derive(Debug, Clone, Serialize, Deserialize)]
pub struct LayoutCase {
    pub ty: usize,
    pub slice: usize,
}

const LAYOUT_SLICES: usize = 8;

// ---------------------------------------------------------------------------------------------
// (2) View: the same bytes through the program's Market and through the SDK's MarketModel
// ---------------------------------------------------------------------------------------------

#[derive(Debug, Clone, Serialize, Deserialize)]
pub struct ViewCase {
    pub cfg: c16::Case,
    /// Raw (long, short) fields of the 16 pools, in `Pools` field order.
    pub pools: Vec<(u128, u128)>,
    /// Seconds the five clocks lie in the past (negative: in the future).
    pub clock_age: [i32; 5],
    pub long_balance: u64,
    pub short_balance: u64,
    pub funding: i128,
    pub supply: u64,
    /// enabled, adl long, adl short, gt
    pub flags: [bool; 4],
}

fn age() -> impl Strategy<Value = i32> {
    prop_oneof![4 => 0i32..=1_000_000, 1 => -100_000i32..0, 1 => Just(0i32)]
}

fn view_case() -> impl Strategy<Value = ViewCase> {
    let amount = || prop_oneof![3 => 0u128..=(1u128 << 100), 1 => any::<u128>(), 1 => 0u128..=1000];
    (
        (any::<u64>(), any::<bool>(), any::<bool>(), 0u8..16, any::<bool>()),
        proptest::collection::vec((amount(), amount()), 16),
        [age(), age(), age(), age(), age()],
        any::<u64>(),
        any::<u64>(),
        any::<i128>(),
        any::<u64>(),
        any::<[bool; 4]>(),
    )
        .prop_map(|((seed, closed, enable_closed_params, flags, pure_market), pools, clock_age, long_balance, short_balance, funding, supply, mflags)| ViewCase {
            cfg: c16::Case { seed, closed, enable_closed_params, flags, pure_market },
            pools,
            clock_age,
            long_balance,
            short_balance,
            funding,
            supply,
            flags: mflags,
        })
}

const NOW: i64 = 1_700_000_000;

/// Specification table: model-trait pool accessor <-> field of the stored `Pools` (by name).
const POOL_NAMES: [&str; 16] = [
    "liquidity_pool",
    "swap_impact_pool",
    "claimable_fee_pool",
    "open_interest_pool(long)",
    "open_interest_pool(short)",
    "open_interest_in_tokens_pool(long)",
    "open_interest_in_tokens_pool(short)",
    "position_impact_pool",
    "borrowing_factor_pool",
    "funding_amount_per_size_pool(long)",
    "funding_amount_per_size_pool(short)",
    "claimable_funding_amount_per_size_pool(long)",
    "claimable_funding_amount_per_size_pool(short)",
    "collateral_sum_pool(long)",
    "collateral_sum_pool(short)",
    "total_borrowing_pool",
];

fn sdk_pools_mut(p: &mut sdkt::Pools) -> [&mut sdkt::PoolStorage; 16] {
    [
        &mut p.primary,
        &mut p.swap_impact,
        &mut p.claimable_fee,
        &mut p.open_interest_for_long,
        &mut p.open_interest_for_short,
        &mut p.open_interest_in_tokens_for_long,
        &mut p.open_interest_in_tokens_for_short,
        &mut p.position_impact,
        &mut p.borrowing_factor,
        &mut p.funding_amount_per_size_for_long,
        &mut p.funding_amount_per_size_for_short,
        &mut p.claimable_funding_amount_per_size_for_long,
        &mut p.claimable_funding_amount_per_size_for_short,
        &mut p.collateral_sum_for_long,
        &mut p.collateral_sum_for_short,
        &mut p.total_borrowing,
    ]
}

fn sdk_pools(p: &sdkt::Pools) -> [&sdkt::PoolStorage; 16] {
    [
        &p.primary,
        &p.swap_impact,
        &p.claimable_fee,
        &p.open_interest_for_long,
        &p.open_interest_for_short,
        &p.open_interest_in_tokens_for_long,
        &p.open_interest_in_tokens_for_short,
        &p.position_impact,
        &p.borrowing_factor,
        &p.funding_amount_per_size_for_long,
        &p.funding_amount_per_size_for_short,
        &p.claimable_funding_amount_per_size_for_long,
        &p.claimable_funding_amount_per_size_for_short,
        &p.collateral_sum_for_long,
        &p.collateral_sum_for_short,
        &p.total_borrowing,
    ]
}

/// (long_amount, short_amount) of every pool accessor of the model traits, under a stable name.
pub fn pools_view<M>(m: &M) -> Result<BTreeMap<&'static str, (u128, u128)>, String>
where
    M: BaseMarket<20, Num = u128, Signed = i128> + SwapMarket<20> + PositionImpactMarket<20> + BorrowingFeeMarket<20> + PerpMarket<20>,
{
    let e = |e: gmsol_model::Error| e.to_string();
    let amounts = |p: &M::Pool| -> Result<(u128, u128), String> { Ok((p.long_amount().map_err(e)?, p.short_amount().map_err(e)?)) };
    let mut v = BTreeMap::new();
    v.insert(POOL_NAMES[0], amounts(m.liquidity_pool().map_err(e)?)?);
    v.insert(POOL_NAMES[1], amounts(m.swap_impact_pool().map_err(e)?)?);
    v.insert(POOL_NAMES[2], amounts(m.claimable_fee_pool().map_err(e)?)?);
    v.insert(POOL_NAMES[3], amounts(m.open_interest_pool(true).map_err(e)?)?);
    v.insert(POOL_NAMES[4], amounts(m.open_interest_pool(false).map_err(e)?)?);
    v.insert(POOL_NAMES[5], amounts(m.open_interest_in_tokens_pool(true).map_err(e)?)?);
    v.insert(POOL_NAMES[6], amounts(m.open_interest_in_tokens_pool(false).map_err(e)?)?);
    v.insert(POOL_NAMES[7], amounts(m.position_impact_pool().map_err(e)?)?);
    v.insert(POOL_NAMES[8], amounts(m.borrowing_factor_pool().map_err(e)?)?);
    v.insert(POOL_NAMES[9], amounts(m.funding_amount_per_size_pool(true).map_err(e)?)?);
    v.insert(POOL_NAMES[10], amounts(m.funding_amount_per_size_pool(false).map_err(e)?)?);
    v.insert(POOL_NAMES[11], amounts(m.claimable_funding_amount_per_size_pool(true).map_err(e)?)?);
    v.insert(POOL_NAMES[12], amounts(m.claimable_funding_amount_per_size_pool(false).map_err(e)?)?);
    v.insert(POOL_NAMES[13], amounts(m.collateral_sum_pool(true).map_err(e)?)?);
    v.insert(POOL_NAMES[14], amounts(m.collateral_sum_pool(false).map_err(e)?)?);
    v.insert(POOL_NAMES[15], amounts(m.total_borrowing_pool().map_err(e)?)?);
    Ok(v)
}

/// Scalars of the model traits that are not configuration parameters.
fn scalars_view<M>(m: &M) -> Result<BTreeMap<&'static str, i128>, String>
where
    M: BaseMarket<20, Num = u128, Signed = i128> + SwapMarket<20> + PositionImpactMarket<20> + BorrowingFeeMarket<20> + PerpMarket<20>,
{
    let e = |e: gmsol_model::Error| e.to_string();
    let mut v = BTreeMap::new();
    v.insert("funding_factor_per_second", *m.funding_factor_per_second());
    v.insert("usd_to_amount_divisor", m.usd_to_amount_divisor() as i128);
    v.insert("funding_amount_per_size_adjustment", m.funding_amount_per_size_adjustment() as i128);
    v.insert("passed_in_seconds_for_borrowing", m.passed_in_seconds_for_borrowing().map_err(e)? as i128);
    v.insert("passed_in_seconds_for_position_impact_distribution", m.passed_in_seconds_for_position_impact_distribution().map_err(e)? as i128);
    v.insert("virtual_inventory_for_swaps", m.virtual_inventory_for_swaps_pool().map_err(e)?.is_some() as i128);
    v.insert("virtual_inventory_for_positions", m.virtual_inventory_for_positions_pool().map_err(e)?.is_some() as i128);
    Ok(v)
}

fn check_view(c: &ViewCase, rec: &mut Rec) -> Result<(), String> {
    svm::init();
    let (mut m, assigned) = c16::configured_market(&c.cfg)?;
    m.set_flag(MarketFlag::Enabled, c.flags[0]);
    m.set_flag(MarketFlag::AutoDeleveragingEnabledForLong, c.flags[1]);
    m.set_flag(MarketFlag::AutoDeleveragingEnabledForShort, c.flags[2]);
    m.set_flag(MarketFlag::GTEnabled, c.flags[3]);
    // Random stored state, written through the SDK's view of the same bytes.
    let mut sm: SdkMarket = bytemuck::pod_read_unaligned(bytemuck::bytes_of(&m));
    let always_two_sided = [7usize, 8, 15];
    let mut expected_pools = BTreeMap::new();
    for (i, slot) in sdk_pools_mut(&mut sm.state.pools).into_iter().enumerate() {
        let pure_pool = c.cfg.pure_market && !always_two_sided.contains(&i);
        let (l, s) = c.pools[i];
        slot.pool.long_token_amount = l;
        slot.pool.short_token_amount = if pure_pool { 0 } else { s };
        expected_pools.insert(POOL_NAMES[i], if pure_pool { (l.div_ceil(2), l / 2) } else { (l, s) });
    }
    sm.state.clocks.price_impact_distribution = NOW - c.clock_age[0] as i64;
    sm.state.clocks.borrowing = NOW - c.clock_age[1] as i64;
    sm.state.clocks.funding = NOW - c.clock_age[2] as i64;
    sm.state.clocks.adl_for_long = NOW - c.clock_age[3] as i64;
    sm.state.clocks.adl_for_short = NOW - c.clock_age[4] as i64;
    sm.state.other.long_token_balance = c.long_balance;
    sm.state.other.short_token_balance = c.short_balance;
    sm.state.other.funding_factor_per_second = c.funding;
    let pm: Market = bytemuck::pod_read_unaligned(bytemuck::bytes_of(&sm));
    svm::set_sysvars(Sysvars { unix_timestamp: NOW, ..Default::default() });
    clock_verif::set_now(Some(NOW));
    let model = MarketModel::from_parts(Arc::new(sm), c.supply);
    let closed = c.cfg.closed && c.cfg.enable_closed_params;
    rec.class(if closed { "closed_params_active" } else { "open_params" });
    rec.class(if c.cfg.pure_market { "pure" } else { "two_token" });
    rec.class_if(c.cfg.closed != c.flags[3] || c.cfg.closed != c.flags[0], "closed_differs_from_other_flags");
    rec.nontrivial();

    // configuration parameters: program == SDK == specification table
    let pv = c16::model_view(&pm)?;
    let sv = c16::model_view(&model)?;
    c16::compare_view(&sv, &pm, &assigned, closed, "SDK MarketModel")?;
    c16::compare_view(&pv, &pm, &assigned, closed, "program Market")?;
    if pv != sv {
        let d = pv.iter().find(|(k, v)| sv.get(*k) != Some(v)).map(|(k, v)| format!("{k}: program {v}, SDK {:?}", sv.get(k)));
        return Err(format!("model parameters differ: {d:?}"));
    }
    // pools
    let pp = pools_view(&pm)?;
    let sp = pools_view(&model)?;
    for name in POOL_NAMES {
        let want = expected_pools[name];
        if pp[name] != want {
            return Err(format!("program {name} reads {:?}, the stored pool of that name holds {want:?}", pp[name]));
        }
        if sp[name] != want {
            return Err(format!("SDK {name} reads {:?}, the stored pool of that name holds {want:?} (program reads {:?})", sp[name], pp[name]));
        }
    }
    // scalars, clocks
    let ps = scalars_view(&pm)?;
    let ss = scalars_view(&model)?;
    if ps != ss {
        let d = ps.iter().find(|(k, v)| ss.get(*k) != Some(v)).map(|(k, v)| format!("{k}: program {v}, SDK {:?}", ss.get(k)));
        return Err(format!("model scalars differ: {d:?}"));
    }
    let age = |a: i32| -> i128 { (a as i128).max(0) };
    if ss["funding_factor_per_second"] != c.funding || ss["passed_in_seconds_for_borrowing"] != age(c.clock_age[1]) || ss["passed_in_seconds_for_position_impact_distribution"] != age(c.clock_age[0]) {
        return Err(format!("scalars do not reflect the stored values: {ss:?}"));
    }
    if model.passed_in_seconds_for_funding().map_err(|e| e.to_string())? as i128 != age(c.clock_age[2]) {
        return Err("SDK passed_in_seconds_for_funding does not read the funding clock".into());
    }
    rec.class_if(c.clock_age.iter().take(3).any(|a| *a < 0), "clock_in_future");
    // flags
    if model.is_pure() != pm.is_pure() || pm.is_pure() != c.cfg.pure_market {
        return Err(format!("pure flag: program {}, SDK {}", pm.is_pure(), model.is_pure()));
    }
    // balances (Bank), supply and deposit caps (LiquidityMarket)
    let meta = *pm.meta();
    let lb = model.balance(&meta.long_token_mint).map_err(|e| e.to_string())?;
    let sb = model.balance(&meta.short_token_mint).map_err(|e| e.to_string())?;
    let want_sb = if c.cfg.pure_market { c.long_balance } else { c.short_balance };
    if lb != c.long_balance || sb != want_sb || pm.state().long_token_balance_raw() != c.long_balance || pm.state().short_token_balance_raw() != c.short_balance {
        return Err(format!("balances: SDK ({lb},{sb}), stored ({},{})", c.long_balance, c.short_balance));
    }
    if model.balance(&meta.index_token_mint).is_ok() != (meta.index_token_mint == meta.long_token_mint || meta.index_token_mint == meta.short_token_mint) {
        return Err("SDK balance() accepts a token that is not a pool token".into());
    }
    if model.total_supply() != c.supply as u128 {
        return Err("SDK total_supply differs from the given supply".into());
    }
    for side in [true, false] {
        let p = pm.max_pool_value_for_deposit(side).map_err(|e| e.to_string())?;
        let s = model.max_pool_value_for_deposit(side).map_err(|e| e.to_string())?;
        let key = if side { MarketConfigKey::MaxPoolValueForDepositForLongToken } else { MarketConfigKey::MaxPoolValueForDepositForShortToken };
        if p != s || s != assigned[&key] {
            return Err(format!("max_pool_value_for_deposit({side}): program {p}, SDK {s}, key {}", assigned[&key]));
        }
    }
    // shift pricing: zero swap fees, same receiver factor
    let mut shifted = model.clone();
    let shift_fee = shifted.with_swap_pricing(SdkSwapPricing::Shift, |m| m.swap_fee_params()).map_err(|e| e.to_string())?;
    use gmsol_model::pool::delta::BalanceChange;
    if shift_fee.fee::<20>(BalanceChange::Improved, &c16::UNIT) != Some(0) || shift_fee.fee::<20>(BalanceChange::Worsened, &c16::UNIT) != Some(0) || *shift_fee.receiver_factor() != assigned[&MarketConfigKey::SwapFeeReceiverFactor] {
        return Err("SDK shift pricing does not zero the swap fees / keep the receiver factor".into());
    }
    clock_verif::set_now(None);
    Ok(())
}

// ---------------------------------------------------------------------------------------------
// (3) Simulation: program Revertible* actions vs SDK MarketModel / PositionModel actions
// ---------------------------------------------------------------------------------------------

#[derive(Debug, Clone, Serialize, Deserialize)]
pub struct SimCase {
    pub pure_market: bool,
    pub closed: bool,
    pub closed_params: bool,
    pub history: History,
}

/// Position-heavy operation mix (the generic `mgen::op_strategy` rarely opens a position): collateral
/// of $1..$10k at 1..30x after a substantial seed deposit, then decreases, liquidations, time, prices.
fn position_op() -> impl Strategy<Value = Op> {
    let n = mgen::NUM_POSITIONS as u8;
    prop_oneof![
        5 => (0u8..n, 10_000_000u128..=20_000_000_000, 1_000_000u128..=10_000_000_000, 1u128..=30).prop_map(|(pos, l, s, lev)| Op::Increase { pos, collateral: if (pos / 2) % 2 == 0 { l } else { s }, size_usd: lev }),
        4 => (0u8..n, prop_oneof![3 => 1u16..=9999, 3 => Just(10_000u16), 1 => Just(0u16)], prop_oneof![3 => Just(0u16), 1 => 1u16..=5000], any::<bool>(), 0u8..3, any::<bool>())
            .prop_map(|(pos, size_bp, withdraw_bp, cap, swap, insolvent_ok)| Op::Decrease { pos, size_bp, withdraw_bp, cap, swap, insolvent_ok }),
        1 => (0u8..n).prop_map(|pos| Op::Liquidate { pos }),
        2 => (prop_oneof![3 => -500i16..=500, 1 => -3000i16..=3000], any::<bool>()).prop_map(|(bp, index_only)| Op::MovePrice { bp, index_only }),
        3 => prop_oneof![3 => 1u32..=3600, 2 => 3600u32..=86_400 * 7].prop_map(|secs| Op::Advance { secs }),
        1 => (any::<bool>(), 1_000_000u128..=1_000_000_000).prop_map(|(long_in, amount)| Op::Swap { long_in, amount }),
    ]
}

fn sim_case(max_ops: usize) -> impl Strategy<Value = SimCase> {
    let generic = mgen::history_strategy(max_ops);
    let position_heavy = (mgen::cfg_strategy(), mgen::prices_strategy(), (10u128.pow(12)..=10u128.pow(13), 10u128.pow(11)..=10u128.pow(12)), proptest::collection::vec(position_op(), 1..=max_ops))
        .prop_map(|(cfg, prices, seed_liquidity, ops)| History { cfg, prices, seed_liquidity, ops });
    (prop_oneof![3 => Just(false), 1 => Just(true)], prop_oneof![4 => Just(false), 1 => Just(true)], any::<bool>(), prop_oneof![1 => generic, 1 => position_heavy])
        .prop_map(|(pure_market, closed, closed_params, history)| SimCase { pure_market, closed, closed_params, history })
}

/// Load a `CfgSpec` into the program market through its configuration keys (setup only: both sides
/// then read the same bytes).
fn apply_cfg(m: &mut Market, cfg: &mgen::CfgSpec) -> Result<(), String> {
    use MarketConfigKey as K;
    let mut set = |k: K, v: u128| -> Result<(), String> {
        *m.get_config_mut(&k.to_string()).map_err(|e| format!("{k}: {e}"))? = v;
        Ok(())
    };
    set(K::SwapImpactExponent, cfg.swap_impact.0)?;
    set(K::SwapImpactPositiveFactor, cfg.swap_impact.1)?;
    set(K::SwapImpactNegativeFactor, cfg.swap_impact.2)?;
    set(K::SwapFeeReceiverFactor, cfg.swap_fee.0)?;
    set(K::SwapFeeFactorForPositiveImpact, cfg.swap_fee.1)?;
    set(K::SwapFeeFactorForNegativeImpact, cfg.swap_fee.2)?;
    set(K::MinPositionSizeUsd, cfg.min_position_size_usd)?;
    set(K::MinCollateralValue, cfg.min_collateral_value)?;
    set(K::MinCollateralFactor, cfg.min_collateral_factor)?;
    set(K::MinCollateralFactorForLiquidation, cfg.min_collateral_factor_for_liquidation.unwrap_or(0))?;
    set(K::MaxPositivePositionImpactFactor, cfg.max_positive_position_impact_factor)?;
    set(K::MaxNegativePositionImpactFactor, cfg.max_negative_position_impact_factor)?;
    set(K::MaxPositionImpactFactorForLiquidations, cfg.max_position_impact_factor_for_liquidations)?;
    set(K::PositionImpactExponent, cfg.position_impact.0)?;
    set(K::PositionImpactPositiveFactor, cfg.position_impact.1)?;
    set(K::PositionImpactNegativeFactor, cfg.position_impact.2)?;
    set(K::OrderFeeReceiverFactor, cfg.order_fee.0)?;
    set(K::OrderFeeFactorForPositiveImpact, cfg.order_fee.1)?;
    set(K::OrderFeeFactorForNegativeImpact, cfg.order_fee.2)?;
    set(K::PositionImpactDistributeFactor, cfg.distribution.0)?;
    set(K::MinPositionImpactPoolAmount, cfg.distribution.1)?;
    set(K::BorrowingFeeReceiverFactor, cfg.borrowing_receiver)?;
    set(K::BorrowingFeeFactorForLong, cfg.borrowing_factor.0)?;
    set(K::BorrowingFeeFactorForShort, cfg.borrowing_factor.1)?;
    set(K::BorrowingFeeExponentForLong, cfg.borrowing_exponent.0)?;
    set(K::BorrowingFeeExponentForShort, cfg.borrowing_exponent.1)?;
    set(K::BorrowingFeeOptimalUsageFactorForLong, cfg.kink_long.0)?;
    set(K::BorrowingFeeBaseFactorForLong, cfg.kink_long.1)?;
    set(K::BorrowingFeeAboveOptimalUsageFactorForLong, cfg.kink_long.2)?;
    set(K::BorrowingFeeOptimalUsageFactorForShort, cfg.kink_short.0)?;
    set(K::BorrowingFeeBaseFactorForShort, cfg.kink_short.1)?;
    set(K::BorrowingFeeAboveOptimalUsageFactorForShort, cfg.kink_short.2)?;
    set(K::FundingFeeExponent, cfg.funding.exponent)?;
    set(K::FundingFeeFactor, cfg.funding.factor)?;
    set(K::FundingFeeIncreaseFactorPerSecond, cfg.funding.increase)?;
    set(K::FundingFeeDecreaseFactorPerSecond, cfg.funding.decrease)?;
    set(K::FundingFeeMaxFactorPerSecond, cfg.funding.max)?;
    set(K::FundingFeeMinFactorPerSecond, cfg.funding.min)?;
    set(K::FundingFeeThresholdForStableFunding, cfg.funding.threshold_stable)?;
    set(K::FundingFeeThresholdForDecreaseFunding, cfg.funding.threshold_decrease)?;
    set(K::ReserveFactor, cfg.reserve_factor)?;
    set(K::OpenInterestReserveFactor, cfg.open_interest_reserve_factor)?;
    set(K::MaxPnlFactorForLongDeposit, cfg.max_pnl_deposit)?;
    set(K::MaxPnlFactorForShortDeposit, cfg.max_pnl_deposit)?;
    set(K::MaxPnlFactorForLongWithdrawal, cfg.max_pnl_withdrawal)?;
    set(K::MaxPnlFactorForShortWithdrawal, cfg.max_pnl_withdrawal)?;
    set(K::MaxPnlFactorForLongTrader, cfg.max_pnl_trader)?;
    set(K::MaxPnlFactorForShortTrader, cfg.max_pnl_trader)?;
    set(K::MaxPnlFactorForLongAdl, cfg.max_pnl_adl)?;
    set(K::MaxPnlFactorForShortAdl, cfg.max_pnl_adl)?;
    set(K::MinPnlFactorAfterLongAdl, cfg.min_pnl_after_adl)?;
    set(K::MinPnlFactorAfterShortAdl, cfg.min_pnl_after_adl)?;
    set(K::MaxPoolAmountForLongToken, cfg.max_pool_amount.0)?;
    set(K::MaxPoolAmountForShortToken, cfg.max_pool_amount.1)?;
    set(K::MaxPoolValueForDepositForLongToken, cfg.max_pool_value_for_deposit.0)?;
    set(K::MaxPoolValueForDepositForShortToken, cfg.max_pool_value_for_deposit.1)?;
    set(K::MaxOpenInterestForLong, cfg.max_open_interest.0)?;
    set(K::MaxOpenInterestForShort, cfg.max_open_interest.1)?;
    set(K::MinCollateralFactorForOpenInterestMultiplierForLong, cfg.min_collateral_factor_for_oi.0)?;
    set(K::MinCollateralFactorForOpenInterestMultiplierForShort, cfg.min_collateral_factor_for_oi.1)?;
    set(K::LiquidationFeeFactor, cfg.liquidation_fee.0)?;
    set(K::LiquidationFeeReceiverFactor, cfg.liquidation_fee.1)?;
    // closed-market variants: deliberately different from the open ones
    set(K::MarketClosedMinCollateralFactorForLiquidation, cfg.min_collateral_factor_for_liquidation.unwrap_or(0) / 2)?;
    set(K::MarketClosedBorrowingFeeBaseFactor, cfg.kink_long.1 / 3)?;
    set(K::MarketClosedBorrowingFeeAboveOptimalUsageFactor, cfg.kink_long.2 / 3)?;
    m.set_config_flag(&MarketConfigFlag::SkipBorrowingFeeForSmallerSide.to_string(), cfg.skip_borrowing_for_smaller_side).map_err(|e| e.to_string())?;
    m.set_config_flag(&MarketConfigFlag::IgnoreOpenInterestForUsageFactor.to_string(), cfg.ignore_oi_for_usage).map_err(|e| e.to_string())?;
    m.set_config_flag(&MarketConfigFlag::MarketClosedSkipBorrowingFeeForSmallerSide.to_string(), !cfg.skip_borrowing_for_smaller_side).map_err(|e| e.to_string())?;
    Ok(())
}

#[derive(Default)]
struct Outcome {
    classes: Vec<&'static str>,
    nontrivial: bool,
}

impl Outcome {
    fn class(&mut self, c: &'static str) {
        if !self.classes.contains(&c) {
            self.classes.push(c);
        }
    }
}

thread_local! {
    static SIM: RefCell<Option<SimCase>> = const { RefCell::new(None) };
    static OUT: RefCell<Option<(Result<(), String>, Outcome)>> = const { RefCell::new(None) };
}

fn sim_driver(_pid: &Pubkey, accounts: &[AccountInfo<'static>], _data: &[u8]) -> ProgramResult {
    let case = SIM.with(|c| c.borrow().clone()).ok_or(ProgramError::InvalidInstructionData)?;
    let mut out = Outcome::default();
    // SAFETY: `env` and everything derived from it are dropped before this function returns.
    let env = unsafe { rvfix::Env::new(accounts)? };
    let r = sim_interpret(&case, &env, &mut out);
    clock_verif::set_now(None);
    OUT.with(|o| *o.borrow_mut() = Some((r, out)));
    Ok(())
}

/// Model-relevant stored state of a market: differences between two SDK-typed views, if any.
/// Revisions, the trade counter (the SDK model does not assign trade ids) and the buffer are ignored.
fn state_diff(p: &SdkMarket, s: &SdkMarket) -> Option<String> {
    for (i, (a, b)) in sdk_pools(&p.state.pools).into_iter().zip(sdk_pools(&s.state.pools)).enumerate() {
        if (a.pool.is_pure, a.pool.long_token_amount, a.pool.short_token_amount) != (b.pool.is_pure, b.pool.long_token_amount, b.pool.short_token_amount) {
            return Some(format!("pool behind {}: program ({},{}), SDK ({},{})", POOL_NAMES[i], a.pool.long_token_amount, a.pool.short_token_amount, b.pool.long_token_amount, b.pool.short_token_amount));
        }
    }
    let (a, b) = (&p.state.clocks, &s.state.clocks);
    if (a.price_impact_distribution, a.borrowing, a.funding, a.adl_for_long, a.adl_for_short) != (b.price_impact_distribution, b.borrowing, b.funding, b.adl_for_long, b.adl_for_short) {
        return Some(format!(
            "clocks: program ({},{},{},{},{}), SDK ({},{},{},{},{})",
            a.price_impact_distribution, a.borrowing, a.funding, a.adl_for_long, a.adl_for_short, b.price_impact_distribution, b.borrowing, b.funding, b.adl_for_long, b.adl_for_short
        ));
    }
    let (a, b) = (&p.state.other, &s.state.other);
    if (a.long_token_balance, a.short_token_balance, a.funding_factor_per_second) != (b.long_token_balance, b.short_token_balance, b.funding_factor_per_second) {
        return Some(format!(
            "other state: program (balances {},{}, funding {}), SDK (balances {},{}, funding {})",
            a.long_token_balance, a.short_token_balance, a.funding_factor_per_second, b.long_token_balance, b.short_token_balance, b.funding_factor_per_second
        ));
    }
    // everything that is not state or buffer must be byte-identical
    let (off_s, len_s) = (std::mem::offset_of!(SdkMarket, state), std::mem::size_of::<sdkt::State>());
    let (off_b, len_b) = (std::mem::offset_of!(SdkMarket, buffer), std::mem::size_of::<sdkt::RevertibleBuffer>());
    let mask = |m: &SdkMarket| {
        let mut v = bytemuck::bytes_of(m).to_vec();
        v[off_s..off_s + len_s].fill(0);
        v[off_b..off_b + len_b].fill(0);
        v
    };
    if mask(p) != mask(s) {
        return Some("bytes outside state and buffer differ".into());
    }
    None
}

fn position_diff(p: &SdkPosition, s: &SdkPosition) -> Option<String> {
    let f = |x: &SdkPosition| {
        (
            x.state.size_in_usd,
            x.state.size_in_tokens,
            x.state.collateral_amount,
            x.state.borrowing_factor,
            x.state.funding_fee_amount_per_size,
            x.state.long_token_claimable_funding_amount_per_size,
            x.state.short_token_claimable_funding_amount_per_size,
        )
    };
    if f(p) != f(s) {
        Some(format!("position state: program {:?}, SDK {:?}", f(p), f(s)))
    } else {
        None
    }
}

/// Compare the two outcomes of one action. `Ok(true)` = both succeeded with identical reports.
fn same_outcome<R: Debug>(what: &str, prog: &Result<R, String>, sdk: &Result<R, String>) -> Result<bool, String> {
    match (prog, sdk) {
        (Ok(a), Ok(b)) => {
            let (a, b) = (format!("{a:?}"), format!("{b:?}"));
            if a != b {
                return Err(format!("{what}: reports differ\n program: {a}\n SDK:     {b}"));
            }
            Ok(true)
        }
        (Err(a), Err(b)) => {
            if std::env::var("VERIF_DEBUG").is_ok() {
                eprintln!("BOTHFAIL {what}: {a}");
            }
            // Errors raised by program-only code (Anchor errors, e.g. the balance bookkeeping) have no
            // SDK counterpart text; model errors must be the same error.
            if a != b && !a.starts_with("AnchorError") {
                return Err(format!("{what}: both fail but differently: program `{a}`, SDK `{b}`"));
            }
            Ok(false)
        }
        (Ok(a), Err(b)) => Err(format!("{what}: program succeeds ({a:?}) but the SDK fails: {b}")),
        (Err(a), Ok(b)) => Err(format!("{what}: program fails ({a}) but the SDK succeeds: {b:?}")),
    }
}

fn sim_interpret(c: &SimCase, env: &rvfix::Env, out: &mut Outcome) -> Result<(), String> {
    let loader = env.market_loader()?;
    let store = env.store_loader()?;
    let e = |e: gmsol_model::Error| e.to_string();
    let mut now = rvfix::T0;
    let mut prices_spec: PricesSpec = c.history.prices;
    let mut opened_position = false;
    let mut elapsed_with_position = false;
    let (long_token, short_token) = {
        let m = loader.load().map_err(|e| e.to_string())?;
        (m.meta().long_token_mint, m.meta().short_token_mint)
    };
    let mut ops: Vec<Op> = vec![];
    if c.history.seed_liquidity != (0, 0) {
        ops.push(Op::Deposit { long: c.history.seed_liquidity.0, short: c.history.seed_liquidity.1 });
    }
    ops.extend(c.history.ops.iter().cloned());

    for (oi, op) in ops.iter().enumerate() {
        svm::set_sysvars(Sysvars { unix_timestamp: now, ..Default::default() });
        clock_verif::set_now(Some(now));
        let prices: Prices<u128> = prices_spec.to_prices();
        let sdk_model = || -> Result<MarketModel, String> {
            let bytes = env.market_bytes()?;
            Ok(MarketModel::from_parts(Arc::new(bytemuck::pod_read_unaligned::<SdkMarket>(&bytes)), rvfix::mint_supply(env.mint)?))
        };
        let stored = || -> Result<SdkMarket, String> { Ok(bytemuck::pod_read_unaligned::<SdkMarket>(&env.market_bytes()?)) };
        let when = format!("op #{oi} {op:?} at t+{}", now - rvfix::T0);
        // The program updates the fee state before liquidity and position actions. The SDK model can
        // mirror the impact distribution and the funding update (it has no mutable borrowing trait),
        // so that is the common pre-step; it is its own committed operation on the program side.
        let needs_pre = matches!(op, Op::Deposit { .. } | Op::Withdraw { .. } | Op::Increase { .. } | Op::Decrease { .. } | Op::Liquidate { .. } | Op::UpdateFees);
        if needs_pre {
            let mut sdk = sdk_model()?;
            let prog = (|| -> Result<_, String> {
                let mut rm = gmsol_store::verif::new_revertible_market(&loader, env.event_authority, env.event_bump).map_err(|e| e.to_string())?;
                let d = rm.distribute_position_impact().map_err(e)?.execute().map_err(e)?;
                let f = rm.update_funding(&prices).map_err(e)?.execute().map_err(e)?;
                rm.commit();
                Ok((d, f))
            })();
            let sdkr = (|| -> Result<_, String> {
                let d = sdk.distribute_position_impact().map_err(e)?.execute().map_err(e)?;
                let f = sdk.update_funding(&prices).map_err(e)?.execute().map_err(e)?;
                Ok((d, f))
            })();
            if same_outcome(&format!("{when}: pre-step (distribute impact, update funding)"), &prog, &sdkr)? {
                if let Some(d) = state_diff(&stored()?, &sdk) {
                    return Err(format!("{when}: after the pre-step: {d}"));
                }
                out.class("pre_step_compared");
            } else {
                out.class("pre_step_failed_on_both");
                continue;
            }
        }
        match op {
            Op::Advance { secs } => {
                now += *secs as i64;
                if opened_position && *secs > 0 {
                    elapsed_with_position = true;
                }
            }
            Op::MovePrice { .. } | Op::SetPrices(_) => {
                // same arithmetic as the history interpreter of the pure model
                let mut w = mgen::World::new(&c.history.cfg, prices_spec);
                let _ = w.apply(op);
                prices_spec = w.prices;
            }
            Op::UpdateFees => {}
            Op::Deposit { long, short } => {
                let mut sdk = sdk_model()?;
                let (la, sa) = ((*long).min(u64::MAX as u128) as u64, (*short).min(u64::MAX as u128) as u64);
                let prog = (|| -> Result<_, String> {
                    let rm = gmsol_store::verif::new_revertible_market(&loader, env.event_authority, env.event_bump).map_err(|e| e.to_string())?;
                    let mint = env.mint_account()?;
                    let mut lm = gmsol_store::verif::new_revertible_liquidity_market(rm, &mint, env.token_program, &store, Some(env.vault), None, Some(SwapPricingKind::Deposit)).map_err(|e| e.to_string())?;
                    lm.record_transferred_in_by_token(&long_token, &la).map_err(e)?;
                    lm.record_transferred_in_by_token(&short_token, &sa).map_err(e)?;
                    let r = lm.deposit(*long, *short, prices).map_err(e)?.execute().map_err(e)?;
                    lm.commit();
                    Ok(r)
                })();
                let sdkr = sdk.with_swap_pricing(SdkSwapPricing::Deposit, |m| -> Result<_, String> {
                    m.record_transferred_in_by_token(&long_token, &la).map_err(e)?;
                    m.record_transferred_in_by_token(&short_token, &sa).map_err(e)?;
                    m.deposit(*long, *short, prices).map_err(e)?.execute().map_err(e)
                });
                if same_outcome(&when, &prog, &sdkr)? {
                    out.class("deposit_compared");
                    if let Some(d) = state_diff(&stored()?, &sdk) {
                        return Err(format!("{when}: {d}"));
                    }
                    if sdk.total_supply() != rvfix::mint_supply(env.mint)? as u128 {
                        return Err(format!("{when}: supply program {}, SDK {}", rvfix::mint_supply(env.mint)?, sdk.total_supply()));
                    }
                    out.nontrivial |= elapsed_with_position;
                } else {
                    out.class("deposit_failed_on_both");
                }
            }
            Op::Withdraw { bp } => {
                let mut sdk = sdk_model()?;
                let supply = rvfix::mint_supply(env.mint)? as u128;
                let amount = supply / 10_000 * (*bp as u128) + supply % 10_000 * (*bp as u128) / 10_000;
                let prog = (|| -> Result<_, String> {
                    let rm = gmsol_store::verif::new_revertible_market(&loader, env.event_authority, env.event_bump).map_err(|e| e.to_string())?;
                    let mint = env.mint_account()?;
                    let mut lm = gmsol_store::verif::new_revertible_liquidity_market(rm, &mint, env.token_program, &store, None, Some(env.vault), Some(SwapPricingKind::Withdrawal)).map_err(|e| e.to_string())?;
                    let r = lm.withdraw(amount, prices).map_err(e)?.execute().map_err(e)?;
                    let lo = (*r.long_token_output()).min(u64::MAX as u128) as u64;
                    lm.record_transferred_out_by_token(&long_token, &lo).map_err(e)?;
                    lm.commit();
                    Ok(r)
                })();
                let sdkr = sdk.with_swap_pricing(SdkSwapPricing::Withdrawal, |m| -> Result<_, String> {
                    let r = m.withdraw(amount, prices).map_err(e)?.execute().map_err(e)?;
                    let lo = (*r.long_token_output()).min(u64::MAX as u128) as u64;
                    m.record_transferred_out_by_token(&long_token, &lo).map_err(e)?;
                    Ok(r)
                });
                if same_outcome(&when, &prog, &sdkr)? {
                    out.class("withdraw_compared");
                    if let Some(d) = state_diff(&stored()?, &sdk) {
                        return Err(format!("{when}: {d}"));
                    }
                    if sdk.total_supply() != rvfix::mint_supply(env.mint)? as u128 {
                        return Err(format!("{when}: supply program {}, SDK {}", rvfix::mint_supply(env.mint)?, sdk.total_supply()));
                    }
                    out.nontrivial |= elapsed_with_position;
                } else {
                    out.class("withdraw_failed_on_both");
                }
            }
            Op::Swap { long_in, amount } => {
                let mut sdk = sdk_model()?;
                let prog = (|| -> Result<_, String> {
                    let mut rm = gmsol_store::verif::new_revertible_market(&loader, env.event_authority, env.event_bump).map_err(|e| e.to_string())?;
                    let r = rm.swap(*long_in, *amount, prices).map_err(e)?.execute().map_err(e)?;
                    rm.commit();
                    Ok(r)
                })();
                let sdkr = sdk.swap(*long_in, *amount, prices).map_err(e).and_then(|a| a.execute().map_err(e));
                if same_outcome(&when, &prog, &sdkr)? {
                    out.class("swap_compared");
                    if let Some(d) = state_diff(&stored()?, &sdk) {
                        return Err(format!("{when}: {d}"));
                    }
                    out.nontrivial |= elapsed_with_position;
                } else {
                    out.class("swap_failed_on_both");
                }
            }
            Op::Increase { pos, .. } | Op::Decrease { pos, .. } | Op::Liquidate { pos } => {
                let i = *pos as usize % rvfix::NUM_POSITIONS;
                let (_, coll_long) = rvfix::position_sides(i);
                let ploader = env.position_loader(i)?;
                let sdk_pos: SdkPosition = bytemuck::pod_read_unaligned(&env.position_bytes(i)?);
                let (size_before, coll_before) = (sdk_pos.state.size_in_usd, sdk_pos.state.collateral_amount);
                if !matches!(op, Op::Increase { .. }) && size_before == 0 && coll_before == 0 {
                    out.class("position_op_skipped_empty");
                    continue;
                }
                let mut pm = PositionModel::new(sdk_model()?, Arc::new(sdk_pos)).map_err(e)?;
                macro_rules! both {
                    ($action:expr) => {{
                        let prog = (|| -> Result<_, String> {
                            let rm = gmsol_store::verif::new_revertible_market(&loader, env.event_authority, env.event_bump).map_err(|e| e.to_string())?;
                            let mut rp = gmsol_store::verif::new_revertible_position(rm, &ploader, c.closed).map_err(|e| e.to_string())?;
                            let r = $action(&mut rp)?;
                            rp.commit();
                            Ok(r)
                        })();
                        let sdkr = $action(&mut pm);
                        (prog, sdkr)
                    }};
                }
                let compared = match op {
                    Op::Increase { collateral, size_usd, .. } => {
                        let price = if coll_long { prices_spec.long.0 } else { prices_spec.short.0 };
                        let size = collateral.saturating_mul(price).saturating_mul(*size_usd);
                        macro_rules! act {
                            () => {
                                |p: &mut _| -> Result<String, String> { Ok(format!("{:?}", PositionMutExt::increase(p, prices, *collateral, size, None).map_err(e)?.execute().map_err(e)?)) }
                            };
                        }
                        let (prog, sdkr) = both!(act!());
                        let ok = same_outcome(&when, &prog, &sdkr)?;
                        out.class(if ok { "increase_compared" } else { "increase_failed_on_both" });
                        opened_position |= ok;
                        ok
                    }
                    Op::Decrease { size_bp, withdraw_bp, cap, swap, insolvent_ok, .. } => {
                        let size_delta = if *size_bp == 10_000 { size_before } else { size_before / 10_000 * (*size_bp as u128) };
                        let withdraw = coll_before / 10_000 * (*withdraw_bp as u128);
                        let flags = DecreasePositionFlags { is_insolvent_close_allowed: *insolvent_ok, is_liquidation_order: false, is_cap_size_delta_usd_allowed: *cap };
                        let ty = match swap % 3 {
                            0 => DecreasePositionSwapType::NoSwap,
                            1 => DecreasePositionSwapType::PnlTokenToCollateralToken,
                            _ => DecreasePositionSwapType::CollateralToPnlToken,
                        };
                        macro_rules! act {
                            () => {
                                |p: &mut _| -> Result<String, String> { Ok(format!("{:?}", PositionMutExt::decrease(p, prices, size_delta, None, withdraw, flags).map_err(e)?.set_swap(ty).execute().map_err(e)?)) }
                            };
                        }
                        let (prog, sdkr) = both!(act!());
                        let ok = same_outcome(&when, &prog, &sdkr)?;
                        out.class(if ok { "decrease_compared" } else { "decrease_failed_on_both" });
                        ok
                    }
                    _ => {
                        let flags = DecreasePositionFlags { is_insolvent_close_allowed: true, is_liquidation_order: true, is_cap_size_delta_usd_allowed: false };
                        macro_rules! act {
                            () => {
                                |p: &mut _| -> Result<String, String> { Ok(format!("{:?}", PositionMutExt::decrease(p, prices, size_before, None, 0, flags).map_err(e)?.execute().map_err(e)?)) }
                            };
                        }
                        let (prog, sdkr) = both!(act!());
                        let ok = same_outcome(&when, &prog, &sdkr)?;
                        out.class(if ok { "liquidation_compared" } else { "liquidation_failed_on_both" });
                        ok
                    }
                };
                if compared {
                    if let Some(d) = state_diff(&stored()?, pm.market_model()) {
                        return Err(format!("{when}: {d}"));
                    }
                    let after: SdkPosition = bytemuck::pod_read_unaligned(&env.position_bytes(i)?);
                    if let Some(d) = position_diff(&after, pm.position()) {
                        return Err(format!("{when}: {d}"));
                    }
                    out.nontrivial |= elapsed_with_position;
                }
            }
        }
    }
    if opened_position {
        out.class("history_with_position");
    }
    if elapsed_with_position {
        out.class("history_with_position_and_elapsed_time");
    }
    Ok(())
}

fn check_sim(c: &SimCase, rec: &mut Rec) -> Result<(), String> {
    let mut vm = Svm::new();
    let k = rvfix::keys("c40");
    svm::register_processor(k.driver, sim_driver);
    svm::set_sysvars(Sysvars { unix_timestamp: rvfix::T0, ..Default::default() });
    let mut market = crate::props::c17::new_market(&crate::props::c17::Case { pure_market: c.pure_market, enabled: true, seed: 40, now: rvfix::T0 })?;
    apply_cfg(&mut market, &c.history.cfg)?;
    market.set_config_flag(&MarketConfigFlag::EnableMarketClosedParams.to_string(), c.closed_params).map_err(|e| e.to_string())?;
    market.set_flag(MarketFlag::Closed, c.closed);
    let ix = rvfix::install(&mut vm, &k, &market, 0, 0)?;
    SIM.with(|x| *x.borrow_mut() = Some(c.clone()));
    OUT.with(|o| *o.borrow_mut() = None);
    svm::keep_logs(true);
    let res = vm.process(&ix);
    let logs = svm::take_logs();
    svm::keep_logs(false);
    SIM.with(|x| *x.borrow_mut() = None);
    let Some((r, out)) = OUT.with(|o| o.borrow_mut().take()) else {
        let tail: Vec<String> = logs.iter().rev().take(4).rev().cloned().collect();
        return Err(format!("driver did not finish: {res:?}; last logs: {tail:?}"));
    };
    for cl in &out.classes {
        rec.class(cl);
    }
    rec.class(if c.pure_market { "pure" } else { "two_token" });
    rec.class_if(c.closed && c.closed_params, "closed_params_active");
    rec.nontrivial_if(out.nontrivial);
    r?;
    res.map_err(|e| format!("driver instruction failed after the interpreter finished: {e:?}"))
}

pub fn run_c40(ctx: &mut Ctx) {
    ctx.rule("layout: for each of the 20 zero-copy account types that exist both in the program and in the SDK's declare_program output: size_of equal, and for every 8-byte word (strided for quick) flipping the word changes the same named field in the Debug rendering of both views (path equality up to rendering depth; words the program hides from Debug are counted, not compared); negative control: two structs with swapped fields must be reported. view: program Market with random distinct values for every config key (c16 table), random flags (enabled/adl/gt/closed/closed-params/pure), random pool amounts, clocks (past and future), balances, funding factor written through the SDK-typed view of the bytes; the same bytes as program Market and as SDK MarketModel: every model-trait accessor (c16::model_view), the 16 pool accessors (must return the stored pool of the same name), scalars, clocks at a pinned time, balances, supply, deposit caps, shift pricing; all cases non-trivial. simulate: mgen histories (deposit/withdraw/swap/increase/decrease/liquidate/price moves/time) executed on the program side with RevertibleMarket / RevertibleLiquidityMarket (real SPL mint/burn) / RevertiblePosition inside svm-lite and committed, and on SDK MarketModel / PositionModel rebuilt from the program's bytes before every operation, same prices, same pinned time: Ok/Err agree, error texts agree, Debug of the reports identical, resulting pools/clocks/balances/funding/supply/position state identical, other bytes identical; non-trivial = an operation compared successfully after a position was opened and time elapsed");
    ctx.assume("the common pre-step before liquidity/position actions is distribute_position_impact + update_funding; update_borrowing is NOT mirrored because the SDK MarketModel does not implement BorrowingFeeMarketMut (the SDK simulator never updates the fee state; the program does in update_fees_state) - both sides therefore run with the same stale borrowing factor; virtual inventories absent on both sides; trade ids / timestamps written by the program's on_increased/on_decreased are ignored; order-fee discount is C31; SDK-side swap paths across markets (SwapMarkets vs Simulator) not compared");
    // (1) layout
    let table = layout_table();
    let quick = ctx.is_quick();
    let cases: Vec<LayoutCase> = (0..table.len()).flat_map(|ty| (0..LAYOUT_SLICES).map(move |slice| LayoutCase { ty, slice })).collect();
    let stats: std::sync::Mutex<Vec<LayoutStat>> = std::sync::Mutex::new(vec![]);
    {
        let table = &table;
        let stats = &stats;
        std::thread::scope(|sc| {
            for chunk in cases.chunks(cases.len().div_ceil(16)) {
                sc.spawn(move || {
                    for c in chunk {
                        let (name, f) = table[c.ty];
                        let st = f(name, if quick { 48 } else { usize::MAX }, c.slice, LAYOUT_SLICES);
                        stats.lock().unwrap().push(st);
                    }
                });
            }
        });
    }
    let mut merged: BTreeMap<String, LayoutStat> = BTreeMap::new();
    for st in stats.into_inner().unwrap() {
        let m = merged.entry(st.name.clone()).or_insert_with(|| LayoutStat { name: st.name.clone(), size: st.size, ..Default::default() });
        m.probes += st.probes;
        m.agreed += st.agreed;
        m.program_hidden += st.program_hidden;
        for d in st.disagreements {
            if !m.disagreements.contains(&d) {
                m.disagreements.push(d);
            }
        }
    }
    let control = probe_layout::<CtlA, CtlB>("control", usize::MAX, 0, 1);
    let layout_cases: Vec<String> = merged.keys().cloned().chain(std::iter::once("negative-control".to_string())).collect();
    ctx.enumerate("layout", layout_cases, |name, rec| {
        rec.nontrivial();
        if name == "negative-control" {
            if control.disagreements.len() != 2 {
                return Err(format!("the layout probe does not see swapped fields: {control:?}"));
            }
            return Ok(());
        }
        let st = &merged[name];
        rec.note(format!("{} bytes, {} words probed, {} agree, {} hidden by the program's Debug", st.size, st.probes, st.agreed, st.program_hidden));
        if !st.disagreements.is_empty() {
            return Err(format!("{name}: {}", st.disagreements.iter().take(5).cloned().collect::<Vec<_>>().join("; ")));
        }
        if st.agreed == 0 {
            return Err(format!("{name}: no word could be compared"));
        }
        Ok(())
    });
    ctx.extra("layout", serde_json::json!(merged.values().collect::<Vec<_>>()));
    // (2) view
    let n = ctx.cases(3_000, 150_000);
    ctx.search("view", n, view_case, check_view);
    ctx.floor("view:closed_params_active", n / 8);
    ctx.floor("view:pure", n / 4);
    ctx.floor("view:closed_differs_from_other_flags", n / 4);
    ctx.floor("view:clock_in_future", n / 100);
    // (3) simulation
    let m = ctx.cases(2_400, 120_000);
    ctx.search("simulate", m, || sim_case(20), check_sim);
    for (class, div) in [
        ("deposit_compared", 3),
        ("withdraw_compared", 14),
        ("swap_compared", 6),
        ("increase_compared", 12),
        ("decrease_compared", 80),
        ("pre_step_compared", 2),
        ("history_with_position_and_elapsed_time", 30),
        ("pure", 8),
    ] {
        ctx.floor(&format!("simulate:{class}"), m / div);
    }
}
