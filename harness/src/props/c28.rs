//! C28 Chainlink reports are decoded safely and converted faithfully.

use crate::engine::{no_panic, Ctx, Rec};
use crate::refmath::*;
use gmsol_chainlink_datastreams::{
    report::{decode, decode_compressed_full_report, decode_full_report},
    utils::Compressor,
    FromChainlinkReport,
};
use gmsol_utils::price::feed_price::PriceFeedPrice;
use num_bigint::{BigInt, BigUint};
use num_traits::{Signed, ToPrimitive, Zero};
use proptest::prelude::*;
use serde::{Deserialize, Serialize};

// ---- structured reports ---------------------------------------------------------------------

#[derive(Debug, Clone, Serialize, Deserialize)]
pub struct ReportCase {
    pub version: u8,
    /// price / bid / ask as (negative?, magnitude as 3 u64 limbs little endian)
    pub price: (bool, [u64; 3]),
    pub bid: (bool, [u64; 3]),
    pub ask: (bool, [u64; 3]),
    pub observations_ts: u32,
    pub last_update_ns: u64,
    pub status: u32,
    pub fee_high: bool,
    pub truncate: u16,
}

fn mag() -> impl Strategy<Value = [u64; 3]> {
    prop_oneof![
        4 => (1u64..=u64::MAX).prop_map(|a| [a, 0, 0]),
        3 => (any::<u64>(), 0u64..=1_000_000).prop_map(|(a, b2)| [a, b2, 0]),
        2 => (any::<u64>(), any::<u64>()).prop_map(|(a, b2)| [a, b2, 0]),
        2 => (any::<u64>(), any::<u64>(), 0u64..(1u64 << 62)).prop_map(|(a, b2, c)| [a, b2, c]),
        1 => Just([0u64, 0, 0]),
    ]
}

fn report_case() -> impl Strategy<Value = ReportCase> {
    (
        prop_oneof![Just(2u8), Just(3u8), Just(7u8), Just(8u8), Just(11u8), Just(4u8)],
        (prop_oneof![9 => Just(false), 1 => Just(true)], mag()),
        (0u8..14, -3i64..=3, 0u64..=1_000_000_000),
        (any::<u32>(), prop_oneof![3 => 0u64..=5_000_000_000, 1 => any::<u64>()], any::<bool>()),
        prop_oneof![6 => 0u32..=5, 1 => any::<u32>()],
        prop_oneof![9 => Just(false), 1 => Just(true)],
        prop_oneof![9 => Just(0u16), 1 => 1u16..=400],
    )
        .prop_map(|(version, price, (shape, off, spread), (obs, lu_delta, lu_after), status, fee_high, truncate)| {
            let to_big = |m: &[u64; 3]| -> BigInt { BigInt::from(m[0]) + (BigInt::from(m[1]) << 64usize) + (BigInt::from(m[2]) << 128usize) };
            let from_big = |x: &BigInt| -> (bool, [u64; 3]) {
                let neg = x.is_negative();
                let m = x.abs();
                let mask = BigInt::from(u64::MAX);
                let limb = |i: u32| ((&m >> (64 * i)) & &mask).to_u64().unwrap_or(0);
                (neg, [limb(0), limb(1), limb(2)])
            };
            let p = if price.0 { -to_big(&price.1) } else { to_big(&price.1) };
            // bid/ask around the price: ordered, equal, misordered or negative
            let (bid, ask) = match shape {
                0 => (p.clone(), p.clone()),
                1 | 2 | 3 => (&p - BigInt::from(spread), &p + BigInt::from(spread)),
                4 => (&p + BigInt::from(spread + 1), &p + BigInt::from(2 * spread + 2)), // bid > price
                5 => (&p - BigInt::from(2 * spread + 2), &p - BigInt::from(spread + 1)), // ask < price
                6 => (-(&p).abs() - BigInt::from(1), &p + BigInt::from(spread)),       // negative bid
                // flat book away from the benchmark price: bid == ask != price (above / below)
                12 => (&p + BigInt::from(spread + 1), &p + BigInt::from(spread + 1)),
                13 => (&p - BigInt::from(spread + 1), &p - BigInt::from(spread + 1)),
                // wide books: bid and ask in other decimal magnitude buckets than the benchmark price
                // (ask = price * 10^k + r, bid = price / 10^j), capped to the signed 192-bit range
                8..=11 => {
                    let k = (spread % 31) as u32;
                    let j = ((spread / 31) % 31) as u32;
                    let cap: BigInt = (BigInt::from(1) << 190usize) - BigInt::from(1);
                    let ask = (&p * BigInt::from(10u8).pow(k) + BigInt::from(spread)).min(cap.clone()).max(-cap);
                    let bid = &p / BigInt::from(10u8).pow(j);
                    match shape {
                        8 => (p.clone(), ask),
                        9 => (bid, p.clone()),
                        _ => (bid, ask),
                    }
                }
                _ => (&p + BigInt::from(off), &p + BigInt::from(off + spread as i64)),
            };
            let obs_ns = obs as u64 as u128 * 1_000_000_000;
            let last_update_ns = if lu_after { (obs_ns + lu_delta as u128).min(u64::MAX as u128) as u64 } else { obs_ns.saturating_sub(lu_delta as u128).min(u64::MAX as u128) as u64 };
            ReportCase { version, price: from_big(&p), bid: from_big(&bid), ask: from_big(&ask), observations_ts: obs, last_update_ns, status, fee_high, truncate }
        })
}

fn big(x: &(bool, [u64; 3])) -> BigInt {
    let m: BigInt = BigInt::from(x.1[0]) + (BigInt::from(x.1[1]) << 64usize) + (BigInt::from(x.1[2]) << 128usize);
    if x.0 { -m } else { m }
}

fn word_u(x: u128) -> [u8; 32] {
    let mut w = [0u8; 32];
    w[16..].copy_from_slice(&x.to_be_bytes());
    w
}

/// int192 as a 32-byte big-endian two's complement word (sign-extended).
fn word_i192(x: &BigInt) -> [u8; 32] {
    let modulus = BigInt::from(1u8) << 256;
    let v = if x.is_negative() { &modulus + x } else { x.clone() };
    let (_, bytes) = v.to_bytes_be();
    let mut w = [0u8; 32];
    w[32 - bytes.len()..].copy_from_slice(&bytes);
    w
}

fn encode_report(c: &ReportCase) -> Vec<u8> {
    let (price, bid, ask) = (big(&c.price), big(&c.bid), big(&c.ask));
    let mut feed_id = [0u8; 32];
    feed_id[0..2].copy_from_slice(&(c.version as u16).to_be_bytes());
    feed_id[5] = 0xAB;
    let mut out = vec![];
    out.extend_from_slice(&feed_id);
    out.extend_from_slice(&word_u(c.observations_ts.saturating_sub(1) as u128)); // valid_from
    out.extend_from_slice(&word_u(c.observations_ts as u128));
    let fee = if c.fee_high { word_i192(&(BigInt::from(1u8) << 190)) } else { word_u(12345) };
    out.extend_from_slice(&fee); // native fee
    out.extend_from_slice(&word_u(678)); // link fee
    out.extend_from_slice(&word_u(c.observations_ts as u128 + 60).map(|b| b)); // expires_at (may exceed u32: still a word)
    match c.version {
        2 | 7 => out.extend_from_slice(&word_i192(&price)),
        3 => {
            out.extend_from_slice(&word_i192(&price));
            out.extend_from_slice(&word_i192(&bid));
            out.extend_from_slice(&word_i192(&ask));
        }
        8 => {
            out.extend_from_slice(&word_u(c.last_update_ns as u128));
            out.extend_from_slice(&word_i192(&price));
            out.extend_from_slice(&word_u(c.status as u128));
        }
        _ => {
            // v11 layout (also used for the unsupported version 4)
            out.extend_from_slice(&word_i192(&price));
            out.extend_from_slice(&word_u(c.last_update_ns as u128));
            out.extend_from_slice(&word_i192(&bid));
            out.extend_from_slice(&word_u(1));
            out.extend_from_slice(&word_i192(&ask));
            out.extend_from_slice(&word_u(2));
            out.extend_from_slice(&word_i192(&price));
            out.extend_from_slice(&word_u(c.status as u128));
        }
    }
    if c.truncate > 0 {
        let keep = out.len().saturating_sub(c.truncate as usize);
        out.truncate(keep);
    }
    out
}

fn check_report(c: &ReportCase, rec: &mut Rec) -> Result<(), String> {
    let blob = encode_report(c);
    let decoded = no_panic(|| decode(&blob)).map_err(|p| format!("decode panicked: {p}"))?;
    let (price, bid, ask) = (big(&c.price), big(&c.bid), big(&c.ask));
    // versions 2/7/8 carry only one price
    let (ebid, eask) = if matches!(c.version, 3 | 11) { (bid.clone(), ask.clone()) } else { (price.clone(), price.clone()) };
    let report = match decoded {
        Ok(r) => r,
        Err(_) => {
            rec.class("decode_rejected");
            let status_ok = match c.version {
                8 => c.status <= 2,
                11 => c.status <= 5,
                _ => true,
            };
            let exp_fits = c.observations_ts as u64 + 60 <= u32::MAX as u64;
            if c.truncate == 0 && matches!(c.version, 2 | 3 | 7 | 8 | 11) && status_ok && exp_fits && !c.fee_high {
                return Err(format!("a well-formed v{} report was rejected", c.version));
            }
            return Ok(());
        }
    };
    rec.class("decoded");
    if c.truncate > 0 && !matches!(c.version, 2 | 3 | 7 | 8 | 11) {
        return Err("unsupported version decoded".into());
    }
    let as_big = |x: Option<gmsol_utils::price::U192>| x.map(|v| BigInt::from(BigUint::from_bytes_le(&v.to_le_bytes::<24>())));
    let checks = [("price", as_big(report.non_negative_price()), &price), ("bid", as_big(report.non_negative_bid()), &ebid), ("ask", as_big(report.non_negative_ask()), &eask)];
    for (name, got, want) in &checks {
        match got {
            Some(g) => {
                if want.is_negative() || g != *want {
                    return Err(format!("decoded {name} = {g}, encoded {want}"));
                }
            }
            None => {
                if !want.is_negative() {
                    return Err(format!("decoded {name} is negative, encoded {want}"));
                }
            }
        }
    }
    if report.observations_timestamp != c.observations_ts {
        return Err("observations timestamp not decoded faithfully".into());
    }
    // conversion into a feed price
    let conv = no_panic(|| PriceFeedPrice::from_chainlink_report(&report)).map_err(|p| format!("from_chainlink_report panicked: {p}"))?;
    let well_ordered = !price.is_negative() && !ebid.is_negative() && !eask.is_negative() && ebid <= price && price <= eask;
    let has_last_update = matches!(c.version, 8 | 11);
    let obs_ns = c.observations_ts as u128 * 1_000_000_000;
    let last_update_too_new = has_last_update && (c.last_update_ns as u128) >= obs_ns + 1_000_000_000;
    // smallest k with floor(ask / 10^k) <= u128::MAX (the code may use k+1 at the boundary)
    let kmin = (0u32..=40).find(|k| floor_div(&eask, &pow10(*k)) <= b(u128::MAX)).unwrap_or(40);
    // the ask needs a larger divisor than the benchmark price would (wide book)
    let kmin_price = (0u32..=40).find(|k| floor_div(&price.abs(), &pow10(*k)) <= b(u128::MAX)).unwrap_or(40);
    rec.class_if(well_ordered && matches!(c.version, 3 | 11) && kmin > kmin_price, "ask_needs_larger_divisor_than_price");
    rec.class_if(ebid == eask && ebid != price && !price.is_negative() && !ebid.is_negative(), "flat_book_away_from_price");
    match conv {
        Ok(p) => {
            rec.class("converted");
            if !well_ordered {
                return Err(format!("negative or misordered bid/price/ask accepted: bid {ebid} price {price} ask {eask}"));
            }
            if last_update_too_new {
                return Err("last update more than 1s after the observation was accepted".into());
            }
            let k = 18u32.checked_sub(p_decimals(&p) as u32).ok_or("decimals above 18")?;
            if k > kmin + 1 {
                return Err(format!("scaled by 10^{k} although 10^{kmin} suffices"));
            }
            let d = pow10(k);
            if b(*p.min_price()) != floor_div(&ebid, &d) || b(*p.price()) != floor_div(&price, &d) || b(*p.max_price()) != floor_div(&eask, &d) {
                return Err(format!("bid/price/ask not scaled by the same power of ten 10^{k}: ({}, {}, {})", p.min_price(), p.price(), p.max_price()));
            }
            if !(p.min_price() <= p.price() && p.price() <= p.max_price()) {
                return Err("order bid <= price <= ask not preserved".into());
            }
            if p.ts() != c.observations_ts as i64 {
                return Err("timestamp not preserved".into());
            }
            rec.nontrivial();
            rec.class_if(k > 0, "scaled_down");
        }
        Err(_) => {
            rec.class("conversion_rejected");
            if well_ordered && !last_update_too_new && kmin + 1 <= 18 {
                return Err(format!("well-formed report rejected by the conversion: bid {ebid} price {price} ask {eask}"));
            }
        }
    }
    Ok(())
}

fn p_decimals(p: &PriceFeedPrice) -> u8 {
    // `decimals` is the first byte of the zero-copy struct
    bytemuck::bytes_of(p)[0]
}

// ---- full report framing ---------------------------------------------------------------------

#[derive(Debug, Clone, Serialize, Deserialize)]
pub struct FrameCase {
    pub gap_words: u8,
    pub blob_len: u16,
    pub tail: u8,
    pub offset_tweak: i64,
    pub length_tweak: i64,
    pub offset_high: [u8; 3],
    pub length_high: [u8; 3],
    pub cut: u16,
    pub flips: Vec<(u16, u8)>,
    pub compressed: bool,
}

fn frame_case() -> impl Strategy<Value = FrameCase> {
    (
        0u8..3,
        prop_oneof![4 => 0u16..=400, 1 => Just(0u16)],
        0u8..40,
        prop_oneof![5 => Just(0i64), 2 => -200i64..=600, 1 => any::<i64>()],
        prop_oneof![5 => Just(0i64), 2 => -200i64..=600, 1 => any::<i64>()],
        prop_oneof![6 => Just([0u8; 3]), 1 => any::<[u8; 3]>()],
        prop_oneof![6 => Just([0u8; 3]), 1 => any::<[u8; 3]>()],
        prop_oneof![5 => Just(0u16), 1 => 1u16..=300],
        proptest::collection::vec((any::<u16>(), any::<u8>()), 0..3),
        any::<bool>(),
    )
        .prop_map(|(gap_words, blob_len, tail, offset_tweak, length_tweak, offset_high, length_high, cut, flips, compressed)| FrameCase { gap_words, blob_len, tail, offset_tweak, length_tweak, offset_high, length_high, cut, flips, compressed })
}

fn build_payload(c: &FrameCase) -> Vec<u8> {
    let mut p = vec![];
    for i in 0..3u8 {
        p.extend_from_slice(&[i + 1; 32]);
    }
    let offset = 128 + 32 * c.gap_words as u64;
    let mut ow = [0u8; 32];
    ow[24..].copy_from_slice(&(offset as i64).wrapping_add(c.offset_tweak).to_be_bytes());
    // bytes 8, 16 and 23 of the word: above 64 bits
    ow[8] = c.offset_high[0];
    ow[16] = c.offset_high[1];
    ow[23] = c.offset_high[2];
    p.extend_from_slice(&ow);
    for g in 0..c.gap_words {
        p.extend_from_slice(&[0xEE ^ g; 32]);
    }
    let mut lw = [0u8; 32];
    lw[24..].copy_from_slice(&(c.blob_len as i64).wrapping_add(c.length_tweak).to_be_bytes());
    lw[8] = c.length_high[0];
    lw[16] = c.length_high[1];
    lw[23] = c.length_high[2];
    p.extend_from_slice(&lw);
    for i in 0..c.blob_len {
        p.push((i % 251) as u8);
    }
    p.extend(std::iter::repeat(0x55).take(c.tail as usize));
    if c.cut > 0 {
        let keep = p.len().saturating_sub(c.cut as usize);
        p.truncate(keep);
    }
    for (pos, v) in &c.flips {
        if !p.is_empty() {
            let i = *pos as usize % p.len();
            p[i] ^= *v;
        }
    }
    p
}

/// Independent ABI reading with full 256-bit words.
fn abi_slice(payload: &[u8]) -> Option<&[u8]> {
    if payload.len() < 128 {
        return None;
    }
    let word = |at: usize| -> Option<BigUint> { Some(BigUint::from_bytes_be(payload.get(at..at.checked_add(32)?)?)) };
    let offset = word(96)?.to_usize()?;
    let len = word(offset)?.to_usize()?;
    let start = offset.checked_add(32)?;
    payload.get(start..start.checked_add(len)?)
}

fn check_frame(c: &FrameCase, rec: &mut Rec) -> Result<(), String> {
    let payload = build_payload(c);
    let got = no_panic(|| decode_full_report(&payload).map(|(ctx, blob)| (ctx, blob.to_vec()))).map_err(|p| format!("decode_full_report panicked: {p}"))?;
    let reference = abi_slice(&payload);
    match got {
        Ok((ctx, blob)) => {
            rec.class("frame_accepted");
            for i in 0..3 {
                if ctx[i][..] != payload[32 * i..32 * (i + 1)] {
                    return Err("report context words not copied faithfully".into());
                }
            }
            match reference {
                Some(r) if r == &blob[..] => {}
                Some(r) => return Err(format!("blob of {} bytes differs from the ABI-described slice of {} bytes", blob.len(), r.len())),
                None => return Err(format!("a blob of {} bytes was returned although the 256-bit offset/length words do not describe a slice inside the payload", blob.len())),
            }
            rec.nontrivial();
        }
        Err(_) => {
            rec.class("frame_rejected");
            rec.class_if(c.offset_high != [0; 3] || c.length_high != [0; 3], "rejected_high_word_bytes");
        }
    }
    // the compressed entry point and the report decoder never panic on arbitrary bytes
    let bytes = if c.compressed { Compressor::compress(&payload).map_err(|e| e.to_string())? } else { payload.clone() };
    no_panic(|| { let _ = decode_compressed_full_report(&bytes); }).map_err(|p| format!("decode_compressed_full_report panicked: {p}"))?;
    no_panic(|| { let _ = decode(&payload); }).map_err(|p| format!("decode panicked on raw bytes: {p}"))?;
    Ok(())
}

pub fn run(ctx: &mut Ctx) {
    ctx.rule("structured: cases = report schema version {2,3,7,8,11, unsupported 4}, price/bid/ask as signed 192-bit values (negative, > 2^128, equal, ordered, misordered, flat books with bid == ask != price, and wide books whose ask / bid lie in other decimal magnitude buckets than the benchmark price), observation and last-update timestamps around the 1 s rule, market status codes, optional truncation, hand-encoded as 32-byte ABI words; oracle = decode never panics and returns the encoded values, conversion succeeds iff all three are non-negative, bid <= price <= ask and the last update is not >= 1 s after the observation, outputs equal floor(x/10^k) for one common k (at most one above the minimum for ask to fit u128), decimals == 18-k, order and timestamp preserved | framing: cases = payloads with 3 context words, offset word, 0..2 gap words, length word, blob, tail, with tweaked / huge / high-byte offsets and lengths, truncation and byte flips, raw and snappy-compressed; oracle = no panic, and on success the blob equals the slice described by the full 256-bit ABI words; non-trivial = converted report / accepted frame");
    let n = ctx.cases(100_000, 5_000_000);
    ctx.search("reports", n, report_case, check_report);
    ctx.floor("reports:ask_needs_larger_divisor_than_price", 100);
    ctx.floor("reports:flat_book_away_from_price", 500);
    ctx.search("frames", n, frame_case, check_frame);
    ctx.floor("reports:converted", 10_000);
    ctx.floor("reports:conversion_rejected", 5_000);
    ctx.floor("frames:frame_accepted", 10_000);
}
