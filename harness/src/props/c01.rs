//! C01 Fixed-point arithmetic is exact with the documented rounding.

use crate::engine::{Ctx, Rec};
use crate::gens::*;
use crate::refmath::*;
use gmsol_model::fixed::{Fixed, FixedPointOps};
use gmsol_model::num::{MulDiv, Unsigned};
use gmsol_model::utils;
use num_bigint::BigInt;
use num_traits::{CheckedMul, Signed, Zero};
use proptest::prelude::*;
use serde::{Deserialize, Serialize};

const FUNCS: [&str; 16] = [
    "mul_div",
    "mul_div_ceil",
    "mul_div_signed",
    "round_up_div",
    "round_up_magnitude_div",
    "bound_magnitude",
    "add_with_signed",
    "sub_with_signed",
    "mul_with_signed",
    "apply_factor",
    "div_to_factor",
    "div_to_factor_signed",
    "usd_to_market_token",
    "market_token_to_usd",
    "fixed_mul",
    "fixed_pow",
];

macro_rules! gen_checks {
    ($modname:ident, $T:ty, $S:ty, $D:expr, $umix:ident, $smix:ident, $to_t:ident, $to_s:ident) => {
        pub mod $modname {
            use super::*;

            #[derive(Debug, Clone, Serialize, Deserialize)]
            pub struct Case {
                pub f: u8,
                pub a: $T,
                pub b: $T,
                pub c: $T,
                pub d: $T,
                pub s: $S,
                pub flag: bool,
                pub k: u8,
            }

            const UNIT: $T = <$T as FixedPointOps<$D>>::UNIT;
            const POW_BASE_BOUND: $T = 1_000_000 * UNIT;

            pub fn strategy() -> impl Strategy<Value = Case> {
                let ops = ($umix(), $umix(), $umix(), $umix(), $smix());
                // Shapes that put exact results next to the type limits or make divisions exact.
                let shaped = (ops, 0u8..8, -2i8..=2).prop_map(|((a, b, c, d, s), shape, off)| {
                    let tweak = |x: $T| -> $T {
                        if off < 0 { x.saturating_sub((-off) as $T) } else { x.saturating_add(off as $T) }
                    };
                    match shape {
                        0 => (a, b, tweak(b), d, s),             // a*b/c ~ a
                        1 => (<$T>::MAX, b, tweak(b), d, s),     // result around MAX
                        2 => (a, tweak(c), c, d, s),             // numerator ~ denominator
                        3 => (tweak(<$T>::MAX / b.max(1)), b, 1, d, s), // product around MAX
                        _ => (a, b, c, d, s),
                    }
                });
                (0u8..(FUNCS.len() as u8), shaped, any::<bool>(), 0u8..=8).prop_map(
                    |(f, (a, b, c, d, s), flag, k)| Case { f, a, b, c, d, s, flag, k },
                )
            }

            fn bt(x: $T) -> BigInt {
                BigInt::from(x)
            }
            fn bs(x: $S) -> BigInt {
                BigInt::from(x)
            }
            fn tmax() -> BigInt {
                BigInt::from(<$T>::MAX)
            }
            fn smax() -> BigInt {
                BigInt::from(<$S>::MAX)
            }
            fn smin() -> BigInt {
                BigInt::from(<$S>::MIN)
            }
            fn fits_t(x: &BigInt) -> bool {
                !x.is_negative() && *x <= tmax()
            }
            fn near_limit(x: &BigInt) -> bool {
                (x - tmax()).abs() <= BigInt::from(2) || (x - smax()).abs() <= BigInt::from(2)
                    || (x - smin()).abs() <= BigInt::from(2)
            }

            /// Exact-equality helper for unsigned results with a two-way failure set.
            fn expect_t(name: &str, got: Option<$T>, exact: Option<BigInt>) -> Result<(), String> {
                match (got, exact) {
                    (Some(g), Some(e)) => {
                        if bt(g) == e { Ok(()) } else { Err(format!("{name}: got {g}, exact {e}")) }
                    }
                    (None, None) => Ok(()),
                    (Some(g), None) => Err(format!("{name}: got Some({g}) where failure is required")),
                    (None, Some(e)) => Err(format!("{name}: got None but exact result {e} fits")),
                }
            }

            pub fn check(case: &Case, rec: &mut Rec) -> Result<(), String> {
                let Case { f, a, b, c, d, s, flag, k } = case.clone();
                let name = FUNCS[f as usize];
                rec.class(name);
                let unit = bt(UNIT);
                match f {
                    0 | 1 | 9 | 13 | 14 => {
                        // floor/ceil(a*b/c) family
                        let (x, n, den, ceil) = match f {
                            0 => (a, b, c, false),
                            1 => (a, b, c, true),
                            9 => (a, b, UNIT, false),
                            13 => (b, a, c, false), // pool_value * amount / supply
                            _ => (a, b, UNIT, false),
                        };
                        let got = match f {
                            0 => a.checked_mul_div(&b, &c),
                            1 => a.checked_mul_div_ceil(&b, &c),
                            9 => utils::apply_factor::<$T, $D>(&a, &b),
                            13 => utils::market_token_amount_to_usd(&a, &b, &c),
                            _ => Fixed::<$T, $D>::from_inner(a)
                                .checked_mul(&Fixed::<$T, $D>::from_inner(b))
                                .map(|r| r.into_inner()),
                        };
                        let prod = bt(x) * bt(n);
                        let exact = if den == 0 {
                            None
                        } else {
                            let r = if ceil { ceil_div(&prod, &bt(den)) } else { floor_div(&prod, &bt(den)) };
                            if fits_t(&r) { Some(r) } else { None }
                        };
                        rec.class_if(got.is_none(), "none");
                        rec.class_if(den != 0 && prod > tmax(), "widened");
                        let nt = den != 0
                            && (prod > tmax()
                                || !(&prod % bt(den)).is_zero()
                                || exact.as_ref().map(near_limit).unwrap_or(true));
                        rec.nontrivial_if(nt);
                        expect_t(name, got, exact)
                    }
                    2 | 11 => {
                        // sign(s) * floor(x*|s|/den), magnitude must fit the signed type
                        let (x, den) = if f == 2 { (a, c) } else { (UNIT, a) };
                        let got = if f == 2 {
                            a.checked_mul_div_with_signed_numerator(&s, &c)
                        } else {
                            utils::div_to_factor_signed::<$T, $D>(&s, &a)
                        };
                        if den == 0 {
                            return if f == 2 {
                                if got.is_none() { Ok(()) } else { Err(format!("{name}: zero divisor gave {got:?}")) }
                            } else if got == Some(0) {
                                Ok(())
                            } else {
                                Err(format!("{name}: zero divisor must give 0, got {got:?}"))
                            };
                        }
                        let mag = floor_div(&(bt(x) * bs(s).abs()), &bt(den));
                        let exact = if s < 0 { -mag.clone() } else { mag.clone() };
                        rec.class_if(got.is_none(), "none");
                        rec.class_if(s < 0, "negative");
                        rec.nontrivial_if(s < 0 || near_limit(&exact) || bt(x) * bs(s).abs() > tmax());
                        match got {
                            Some(g) => {
                                if bs(g) == exact { Ok(()) } else { Err(format!("{name}: got {g}, exact {exact}")) }
                            }
                            None => {
                                if mag > smax() { Ok(()) } else { Err(format!("{name}: None but exact {exact} fits")) }
                            }
                        }
                    }
                    3 => {
                        let got = a.checked_round_up_div(&b);
                        let exact = if b == 0 || bt(a) + bt(b) > tmax() { None } else { Some(ceil_div(&bt(a), &bt(b))) };
                        rec.class_if(got.is_none(), "none");
                        rec.nontrivial_if(b != 0 && (a % b.max(1) != 0 || bt(a) + bt(b) > tmax() - 2));
                        expect_t(name, got, exact)
                    }
                    4 => {
                        // divisor a, dividend s: round the magnitude up
                        let got = a.as_divisor_to_round_up_magnitude_div(&s);
                        let permitted_none = a == 0
                            || bt(a) > smax()
                            || (s < 0 && bs(s) - bt(a) < smin())
                            || (s >= 0 && bs(s) + bt(a) > smax());
                        rec.class_if(got.is_none(), "none");
                        rec.class_if(s < 0, "negative");
                        match got {
                            Some(g) => {
                                if permitted_none {
                                    return Err(format!("{name}: Some({g}) where failure is required"));
                                }
                                let exact = away_div(&bs(s), &bt(a));
                                rec.nontrivial_if(s < 0 || !(bs(s) % bt(a)).is_zero());
                                if bs(g) == exact { Ok(()) } else { Err(format!("{name}: got {g}, exact {exact}")) }
                            }
                            None => {
                                rec.nontrivial_if(a != 0);
                                if permitted_none { Ok(()) } else { Err(format!("{name}: None but result representable")) }
                            }
                        }
                    }
                    5 => {
                        let (min, max) = (a, b);
                        let got = <$T as Unsigned>::bound_magnitude(&s, &min, &max);
                        let mag = bs(s).abs();
                        let must_err = min > max || (mag < bt(min) && bt(min) > smax());
                        rec.class_if(got.is_err(), "none");
                        match got {
                            Ok(g) => {
                                if must_err {
                                    return Err(format!("{name}: Ok({g}) where error is documented"));
                                }
                                let m = if mag < bt(min) { bt(min) } else if mag > bt(max) { bt(max) } else { mag.clone() };
                                let exact = if s < 0 { -m } else { m };
                                rec.class_if(bs(g) != bs(s), "clamped");
                                rec.nontrivial_if(bs(g) != bs(s) || s < 0);
                                if bs(g) == exact { Ok(()) } else { Err(format!("{name}: got {g}, exact {exact}")) }
                            }
                            Err(e) => {
                                rec.nontrivial();
                                if must_err { Ok(()) } else { Err(format!("{name}: unexpected error {e}")) }
                            }
                        }
                    }
                    6 | 7 => {
                        let got = if f == 6 { a.checked_add_with_signed(&s) } else { a.checked_sub_with_signed(&s) };
                        let r = if f == 6 { bt(a) + bs(s) } else { bt(a) - bs(s) };
                        let exact = if fits_t(&r) { Some(r.clone()) } else { None };
                        rec.class_if(got.is_none(), "none");
                        rec.nontrivial_if(s < 0 || near_limit(&r) || !fits_t(&r));
                        expect_t(name, got, exact)
                    }
                    8 => {
                        let got = a.checked_mul_with_signed(&s);
                        let mag = bt(a) * bs(s).abs();
                        rec.class_if(got.is_none(), "none");
                        rec.nontrivial_if(s < 0 || near_limit(&mag));
                        match got {
                            Some(g) => {
                                let exact = bt(a) * bs(s);
                                if bs(g) == exact { Ok(()) } else { Err(format!("{name}: got {g}, exact {exact}")) }
                            }
                            None => {
                                if mag > smax() { Ok(()) } else { Err(format!("{name}: None but {}*{} fits", a, s)) }
                            }
                        }
                    }
                    10 => {
                        let got = utils::div_to_factor::<$T, $D>(&a, &b, flag);
                        let exact = if b == 0 {
                            Some(BigInt::zero())
                        } else {
                            let p = bt(a) * &unit;
                            let r = if flag { ceil_div(&p, &bt(b)) } else { floor_div(&p, &bt(b)) };
                            if fits_t(&r) { Some(r) } else { None }
                        };
                        rec.class_if(got.is_none(), "none");
                        rec.class_if(flag, "round_up");
                        rec.nontrivial_if(b != 0 && !((bt(a) * &unit) % bt(b.max(1))).is_zero());
                        expect_t(name, got, exact)
                    }
                    12 => {
                        let (usd, pool, supply, div) = (a, b, c, d);
                        let got = utils::usd_to_market_token_amount(usd, pool, supply, div);
                        let exact = if div == 0 {
                            None
                        } else if supply == 0 && pool == 0 {
                            rec.class("first_deposit");
                            Some(floor_div(&bt(usd), &bt(div)))
                        } else if supply == 0 {
                            rec.class("empty_supply_with_value");
                            let sum = bt(pool) + bt(usd);
                            if fits_t(&sum) { Some(floor_div(&sum, &bt(div))) } else { None }
                        } else if pool == 0 {
                            None
                        } else {
                            rec.class("proportional");
                            let r = floor_div(&(bt(supply) * bt(usd)), &bt(pool));
                            if fits_t(&r) { Some(r) } else { None }
                        };
                        rec.class_if(got.is_none(), "none");
                        rec.nontrivial_if(div != 0);
                        expect_t(name, got, exact)
                    }
                    15 => {
                        let base = if a > POW_BASE_BOUND { a % (POW_BASE_BOUND + 1) } else { a };
                        let n = k as u32;
                        let exponent = (n as $T) * UNIT;
                        let got = Fixed::<$T, $D>::from_inner(base)
                            .checked_pow(&Fixed::<$T, $D>::from_inner(exponent))
                            .map(|r| r.into_inner());
                        // exact = base^n / UNIT^(n-1); error bound E = sum_{j<n} base^j UNIT^(n-1-j) / UNIT^(n-1)
                        let bb = bt(base);
                        if n == 0 {
                            rec.class("pow_exp0");
                            return if got == Some(UNIT) { Ok(()) } else { Err(format!("{name}: x^0 = {got:?}")) };
                        }
                        let scale = unit.pow(n - 1);
                        let exact_num = bb.pow(n);
                        let mut err_num = BigInt::zero();
                        for j in 0..n {
                            err_num += bb.pow(j) * unit.pow(n - 1 - j);
                        }
                        // iterated-floor reference (counted, not asserted)
                        let mut it = unit.clone();
                        let mut it_overflow = false;
                        for _ in 0..n {
                            it = floor_div(&(&it * &bb), &unit);
                            if it > tmax() {
                                it_overflow = true;
                            }
                        }
                        rec.class_if(got.is_none(), "none");
                        rec.nontrivial_if(n >= 2 && base > 1);
                        match got {
                            Some(g) => {
                                let lhs = bt(g) * &scale;
                                if lhs > exact_num {
                                    return Err(format!("{name}: {base}^{n} = {g} exceeds the exact value"));
                                }
                                if n >= 1 && lhs <= &exact_num - &err_num {
                                    return Err(format!("{name}: {base}^{n} = {g} below exact minus accumulated floor error"));
                                }
                                rec.class_if(bt(g) == it, "pow_matches_iterated_floor");
                                Ok(())
                            }
                            None => {
                                // permitted only if the real value (within the error band) exceeds the type
                                let limit = tmax() * &scale;
                                if &exact_num + &err_num > limit || it_overflow {
                                    Ok(())
                                } else {
                                    Err(format!("{name}: {base}^{n} returned None but the result fits"))
                                }
                            }
                        }
                    }
                    _ => Ok(()),
                }
            }
        }
    };
}

gen_checks!(w64, u64, i64, 9, u64_mix, i64_mix, to_u64, to_i64);
gen_checks!(w128, u128, i128, 20, u128_mix, i128_mix, to_u128, to_i128);

pub fn run(ctx: &mut Ctx) {
    ctx.rule("cases = (function selector over 16 helpers, operands from a mixture of uniform / powers of ten ±2 / type limits / small / unit multiples / shapes that put the exact result next to T::MAX); oracle = BigInt exact result with the documented rounding, failure set checked in both directions; non-trivial = widened intermediate, non-zero remainder, negative sign, or result within 2 of a type limit");
    let n = ctx.cases(400_000, 16_000_000);
    ctx.search("u64", n, w64::strategy, w64::check);
    ctx.search("u128", n, w128::strategy, w128::check);
    for f in FUNCS {
        ctx.floor(&format!("u64:{f}"), 1000);
        ctx.floor(&format!("u128:{f}"), 1000);
    }
}
