//! Instruction-level paths of the oracle properties C24, C25 and C29 (the hook-level checks live in
//! `oracle.rs`). Everything below goes through `Svm::process` on the REAL entrypoints:
//!
//! * C25I `run_c25_instr`: `update_price_feed_with_chainlink[_idempotent]` with the repository's mock
//!   Chainlink verifier program executing inside svm-lite (the store CPIs into it with the store PDA
//!   as signer). Full reports are ABI-encoded by hand (schema v2/v3/v7/v8/v11), framed like
//!   `abi.encode(bytes32[3], bytes, bytes32[], bytes32[], bytes32)` and snappy-compressed.
//! * C24I `run_c24_instr`: `set_prices_from_price_feed` / `clear_all_prices` on the W1 oracle. The
//!   feed states are produced by the real chainlink update instruction, token configs by the real
//!   `push_to_token_map*` / `set_feed_config_v2` / `toggle_token_*` instructions, store amounts by the
//!   real `insert_amount`.
//! * C29I `run_c29_instr`: the same instruction path with a generator concentrated on the price
//!   adjustment (flag `AllowPriceAdjustment` + max deviation factor) around the band edges.
//!
//! The reference models are written from the doc comments / property texts in BigInt and i128 and share
//! no code with the program.

use std::cell::RefCell;

use crate::engine::{Ctx, Rec};
use crate::refmath::*;
use crate::svm::{self, Acct, Sysvars};
use crate::world1::{self, store_ix, World1};
use anchor_lang::solana_program::{instruction::Instruction, program::get_return_data, pubkey::Pubkey, system_program};
use anchor_lang::{InstructionData, ToAccountMetas};
use gmsol_chainlink_datastreams::utils::Compressor;
use gmsol_store::accounts as sa;
use gmsol_store::instruction as si;
use gmsol_store::states::{AmountKey, Oracle, PriceFeedPrice, PriceProviderKind, UpdateTokenConfigParams};
use gmsol_utils::price::{market_status::MarketStatus, PriceFlag};
use gmsol_utils::role::RoleKey;
use num_bigint::BigInt;
use num_traits::{Signed, Zero};
use proptest::prelude::*;
use serde::{Deserialize, Serialize};

const CLDS: PriceProviderKind = PriceProviderKind::ChainlinkDataStreams;
const TOKEN_NAMES: [&str; 4] = ["LONG", "SHORT", "IDXA", "IDXB"];
const TOKEN_DECIMALS: [u8; 4] = [world1::LONG_DECIMALS, world1::SHORT_DECIMALS, world1::INDEX_DECIMALS, world1::INDEX_DECIMALS];
/// Report schema versions of the five C25 feeds (all on token 0).
const VERSIONS: [u8; 5] = [3, 2, 7, 8, 11];
const NANOS: u128 = 1_000_000_000;

// =========================================================================================== fixture

/// W1 + initialised mock verifier + fresh custom price feeds whose feed ids carry a report schema
/// version (bytes 0..2 of a Chainlink feed id). Built once per thread with real instructions.
#[derive(Clone)]
struct Fx {
    w: World1,
    pk: Pubkey,
    oc: Pubkey,
    mk: Pubkey,
    ck: Pubkey,
    order_keeper: Pubkey,
    /// Holds ORACLE_CONTROLLER but is not the authority of the W1 oracle.
    other_oc: Pubkey,
    verifier_account: Pubkey,
    access_controller: Pubkey,
    tokens: [Pubkey; 4],
    /// v3 feeds of the four W1 tokens (index 1): (feed id, account).
    feeds: [(Pubkey, Pubkey); 4],
    /// feeds on token 0 for [`VERSIONS`]: (feed id, account); entry 0 is `feeds[0]`.
    vfeeds: [(Pubkey, Pubkey); 5],
}

thread_local! {
    static FX: RefCell<Option<Fx>> = const { RefCell::new(None) };
}

fn versioned_id(version: u8, label: &str) -> Pubkey {
    let mut bytes = svm::key_of(label).to_bytes();
    bytes[0] = 0;
    bytes[1] = version;
    Pubkey::new_from_array(bytes)
}

fn setup(w: &mut World1, what: &str, ix: &Instruction) -> Result<(), String> {
    w.process(ix).map_err(|e| format!("setup: {what} failed: {e:?}"))
}

impl Fx {
    fn fresh() -> Result<Fx, String> {
        let cached = FX.with(|c| c.borrow().clone());
        let fx = match cached {
            Some(fx) => fx,
            None => {
                let fx = Fx::build()?;
                FX.with(|c| *c.borrow_mut() = Some(fx.clone()));
                fx
            }
        };
        svm::init();
        svm::set_sysvars(Sysvars::default());
        svm::take_events();
        Ok(fx)
    }

    fn build() -> Result<Fx, String> {
        let mut w = World1::fresh()?;
        let k = w.k.clone();
        let pk = k.role_key(RoleKey::PRICE_KEEPER);
        let vid = gmsol_mock_chainlink_verifier::ID;
        let verifier_account = Pubkey::find_program_address(&[gmsol_mock_chainlink_verifier::DEFAULT_VERIFIER_ACCOUNT_SEEDS], &vid).0;
        let access_controller = Pubkey::find_program_address(&[gmsol_mock_chainlink_verifier::DEFAULT_ACCESS_CONTROLLER_ACCOUNT_SEEDS], &vid).0;
        // the verifier's access controller admits exactly one user: the store PDA (it signs the CPI)
        let init = Instruction {
            program_id: vid,
            accounts: gmsol_mock_chainlink_verifier::accounts::Initialize { payer: k.admin, verifier_account, access_controller, system_program: system_program::ID }.to_account_metas(None),
            data: gmsol_mock_chainlink_verifier::instruction::Initialize { user: k.store }.data(),
        };
        setup(&mut w, "mock verifier initialize", &init)?;
        let tokens = [k.long_mint, k.short_mint, k.index_a, k.index_b];
        let mut feeds = [(Pubkey::default(), Pubkey::default()); 4];
        for i in 0..4 {
            let id = versioned_id(3, &format!("oix-feed-id-{i}"));
            setup(&mut w, "initialize_price_feed", &k.ix_initialize_price_feed(pk, 1, CLDS as u8, tokens[i], id))?;
            feeds[i] = (id, k.price_feed_pda(&pk, 1, CLDS as u8, &tokens[i]));
        }
        let mut vfeeds = [feeds[0]; 5];
        for (j, v) in VERSIONS.iter().enumerate().skip(1) {
            let id = versioned_id(*v, &format!("oix-vfeed-id-{v}"));
            let index = 1 + j as u16;
            setup(&mut w, "initialize_price_feed(version)", &k.ix_initialize_price_feed(pk, index, CLDS as u8, tokens[0], id))?;
            vfeeds[j] = (id, k.price_feed_pda(&pk, index, CLDS as u8, &tokens[0]));
        }
        let other_oc = w.add_signer("oix-other-oracle-controller", &[RoleKey::ORACLE_CONTROLLER])?;
        Ok(Fx {
            pk,
            oc: k.role_key(RoleKey::ORACLE_CONTROLLER),
            mk: k.role_key(RoleKey::MARKET_KEEPER),
            ck: k.role_key(RoleKey::CONFIG_KEEPER),
            order_keeper: k.role_key(RoleKey::ORDER_KEEPER),
            other_oc,
            verifier_account,
            access_controller,
            tokens,
            feeds,
            vfeeds,
            w,
        })
    }

    fn ix_update(&self, authority: Pubkey, feed: Pubkey, compressed_report: Vec<u8>, idempotent: bool, verifier_account: Pubkey, access_controller: Pubkey) -> Instruction {
        let accounts = sa::UpdatePriceFeedWithChainlink {
            authority,
            store: self.w.k.store,
            verifier_account,
            access_controller,
            config_account: svm::key_of("oix-verifier-config"),
            price_feed: feed,
            chainlink: gmsol_mock_chainlink_verifier::ID,
        };
        if idempotent {
            store_ix(accounts, si::UpdatePriceFeedWithChainlinkIdempotent { compressed_report })
        } else {
            store_ix(accounts, si::UpdatePriceFeedWithChainlink { compressed_report })
        }
    }
}

fn returned_bool() -> Option<bool> {
    get_return_data().and_then(|(pid, d)| if pid == gmsol_store::ID && d.len() == 1 { Some(d[0] != 0) } else { None })
}

// =========================================================================================== reports

#[derive(Clone, Debug)]
struct Report {
    version: u8,
    feed_id: [u8; 32],
    observations_ts: u32,
    expires_at: u32,
    price: i128,
    bid: i128,
    ask: i128,
    last_update_ns: u64,
    status: u32,
}

fn word_u(x: u128) -> [u8; 32] {
    let mut w = [0u8; 32];
    w[16..].copy_from_slice(&x.to_be_bytes());
    w
}

/// int192 as a sign-extended 32-byte big-endian word.
fn word_i(x: i128) -> [u8; 32] {
    let mut w = if x < 0 { [0xffu8; 32] } else { [0u8; 32] };
    w[16..].copy_from_slice(&x.to_be_bytes());
    w
}

fn encode_blob(r: &Report) -> Vec<u8> {
    let mut out = vec![];
    out.extend_from_slice(&r.feed_id);
    out.extend_from_slice(&word_u(r.observations_ts.saturating_sub(1) as u128)); // valid_from
    out.extend_from_slice(&word_u(r.observations_ts as u128));
    out.extend_from_slice(&word_u(12_345)); // native fee
    out.extend_from_slice(&word_u(678)); // link fee
    out.extend_from_slice(&word_u(r.expires_at as u128));
    match r.version {
        2 | 7 => out.extend_from_slice(&word_i(r.price)),
        3 => {
            out.extend_from_slice(&word_i(r.price));
            out.extend_from_slice(&word_i(r.bid));
            out.extend_from_slice(&word_i(r.ask));
        }
        8 => {
            out.extend_from_slice(&word_u(r.last_update_ns as u128));
            out.extend_from_slice(&word_i(r.price));
            out.extend_from_slice(&word_u(r.status as u128));
        }
        _ => {
            // v11: mid, last seen (ns), bid, bid volume, ask, ask volume, last traded price, status
            out.extend_from_slice(&word_i(r.price));
            out.extend_from_slice(&word_u(r.last_update_ns as u128));
            out.extend_from_slice(&word_i(r.bid));
            out.extend_from_slice(&word_u(1));
            out.extend_from_slice(&word_i(r.ask));
            out.extend_from_slice(&word_u(2));
            out.extend_from_slice(&word_i(r.price));
            out.extend_from_slice(&word_u(r.status as u128));
        }
    }
    out
}

/// `abi.encode(bytes32[3] context, bytes blob, bytes32[] rs, bytes32[] ss, bytes32 rawVs)`.
fn full_report(blob: &[u8]) -> Vec<u8> {
    let padded = blob.len().div_ceil(32) * 32;
    let blob_off = 7 * 32;
    let rs_off = blob_off + 32 + padded;
    let ss_off = rs_off + 32;
    let mut p = vec![];
    for i in 0..3u8 {
        p.extend_from_slice(&[0x11 * (i + 1); 32]);
    }
    p.extend_from_slice(&word_u(blob_off as u128));
    p.extend_from_slice(&word_u(rs_off as u128));
    p.extend_from_slice(&word_u(ss_off as u128));
    p.extend_from_slice(&[0x01; 32]); // rawVs
    p.extend_from_slice(&word_u(blob.len() as u128));
    p.extend_from_slice(blob);
    p.resize(blob_off + 32 + padded, 0);
    p.extend_from_slice(&word_u(0)); // rs: empty
    p.extend_from_slice(&word_u(0)); // ss: empty
    p
}

fn compressed_report(r: &Report) -> Result<Vec<u8>, String> {
    Compressor::compress(&full_report(&encode_blob(r))).map_err(|e| format!("snappy: {e}"))
}

/// The feed price a report is documented to produce (decimals 18; bid/ask only for v3/v11, last
/// update tracking and market status only for v8/v11). `None` when the report must be refused.
fn feed_price_of(r: &Report) -> Option<PriceFeedPrice> {
    let (bid, ask) = if matches!(r.version, 3 | 11) { (r.bid, r.ask) } else { (r.price, r.price) };
    if r.price < 0 || bid < 0 || ask < 0 || ask < r.price || r.price < bid {
        return None;
    }
    let has_last_update = matches!(r.version, 8 | 11);
    let mut diff_secs = 0u32;
    let status = match r.version {
        8 => match r.status {
            0 => MarketStatus::Unknown,
            1 => MarketStatus::Closed,
            2 => MarketStatus::RegularHours,
            _ => return None,
        },
        11 => match r.status {
            0 => MarketStatus::Unknown,
            1 => MarketStatus::PreMarket,
            2 => MarketStatus::RegularHours,
            3 => MarketStatus::PostMarket,
            4 => MarketStatus::Overnight,
            5 => MarketStatus::Closed,
            _ => return None,
        },
        _ => MarketStatus::Disabled,
    };
    if has_last_update {
        let obs_ns = r.observations_ts as u128 * NANOS;
        let lu = r.last_update_ns as u128;
        if lu >= obs_ns + NANOS {
            return None; // last update one second or more after the observation
        }
        diff_secs = obs_ns.saturating_sub(lu).div_ceil(NANOS) as u32;
    }
    let mut p = PriceFeedPrice::new(18, r.observations_ts as i64, r.price as u128, bid as u128, ask as u128, diff_secs);
    p.set_flag(PriceFlag::Open, true);
    if has_last_update {
        p.set_flag(PriceFlag::LastUpdateDiffEnabled, true);
        p.set_flag(PriceFlag::LastUpdateDiffSecs, true);
    }
    p.set_market_status(status);
    Some(p)
}

// Layout of the `PriceFeed` account (8-byte discriminator, then bump/provider/index/padding = 16 bytes,
// store, authority, token, feed id = 4 x 32 bytes, then the three mutable fields).
const FEED_SLOT_OFF: usize = 8 + 16 + 4 * 32;
const FEED_AT_OFF: usize = FEED_SLOT_OFF + 8;
const FEED_PRICE_OFF: usize = FEED_AT_OFF + 8;
const FEED_PRICE_LEN: usize = std::mem::size_of::<PriceFeedPrice>();

// =========================================================================================== C25I

#[derive(Debug, Clone, Serialize, Deserialize)]
pub struct UpdOp {
    pub slot_delta: i32,
    pub clock_delta: i32,
    /// 0: clock + ts_off; 1: exactly clock + future excess; 2: one past it; 3: last accepted; 4: last - 1; 5: last + 1
    pub ts_kind: u8,
    pub ts_off: i64,
    /// expires_at = clock + exp_off
    pub exp_off: i32,
    pub price: u128,
    pub below: u128,
    pub above: u128,
    /// 0: bid > price; 1: ask < price; 2: negative price; 3: negative bid; else well ordered
    pub shape: u8,
    /// v8/v11: last update = observation - off (milliseconds; negative = after the observation)
    pub last_update_off_ms: i64,
    pub status: u8,
    pub idempotent: bool,
    /// 0 none; 1 report for another feed id; 2 stranger signs; 3 ORDER_KEEPER signs; 4 PRICE_KEEPER role revoked
    /// from the feed authority; 5 wrong access controller; 6 wrong verifier account; 7 truncated report
    pub fault: u8,
}

#[derive(Debug, Clone, Serialize, Deserialize)]
pub struct UpdCase {
    pub feed: u8,
    pub future_excess: u64,
    pub ops: Vec<UpdOp>,
}

fn upd_case() -> impl Strategy<Value = UpdCase> {
    let op = (
        (prop_oneof![8 => 0i32..=5, 1 => -3i32..=-1], prop_oneof![8 => 0i32..=20, 1 => -20i32..=-1]),
        (prop_oneof![6 => Just(0u8), 1 => Just(1u8), 1 => Just(2u8), 2 => Just(3u8), 2 => Just(4u8), 1 => Just(5u8)], prop_oneof![6 => -30i64..=30, 1 => -10_000i64..=10_000, 1 => any::<i64>()]),
        prop_oneof![8 => 0i32..=600, 1 => -5i32..=-1, 1 => Just(0i32)],
        (prop_oneof![6 => 1u128..=10u128.pow(24), 1 => 1u128..=10u128.pow(36), 1 => Just(0u128)], 0u128..=1000, 0u128..=1000, prop_oneof![1 => Just(0u8), 1 => Just(1u8), 1 => Just(2u8), 1 => Just(3u8), 14 => Just(4u8)]),
        (prop_oneof![5 => 0i64..=5_000, 2 => -1_500i64..=-1, 1 => any::<i32>().prop_map(|x| x as i64)], prop_oneof![9 => 0u8..=5, 1 => 6u8..=9]),
        any::<bool>(),
        prop_oneof![16 => Just(0u8), 6 => 1u8..=7],
    )
        .prop_map(|((slot_delta, clock_delta), (ts_kind, ts_off), exp_off, (price, below, above, shape), (last_update_off_ms, status), idempotent, fault)| UpdOp {
            slot_delta,
            clock_delta,
            ts_kind,
            ts_off,
            exp_off,
            price,
            below,
            above,
            shape,
            last_update_off_ms,
            status,
            idempotent,
            fault,
        });
    (0u8..5, prop_oneof![4 => 0u64..=30, 1 => any::<u64>()], proptest::collection::vec(op, 1..14)).prop_map(|(feed, future_excess, ops)| UpdCase { feed, future_excess, ops })
}

#[derive(Debug, PartialEq, Eq, Clone, Copy)]
enum Outcome {
    Accept,
    Skip,
    Reject,
}

fn check_update(c: &UpdCase, rec: &mut Rec) -> Result<(), String> {
    let mut fx = Fx::fresh()?;
    let k = fx.w.k.clone();
    // the tolerance for future timestamps is store configuration: set through the real instruction
    setup(&mut fx.w, "insert_amount(future excess)", &k.ix_insert_amount(fx.ck, &AmountKey::OracleMaxFutureTimestampExcess.to_string(), c.future_excess))?;
    let fi = c.feed as usize % VERSIONS.len();
    let version = VERSIONS[fi];
    let (feed_id, feed) = fx.vfeeds[fi];
    let mut sys = Sysvars::default();
    // reference model of the feed: last accepted price timestamp, publication slot and time
    let (mut last_ts, mut last_slot, mut last_at) = (0i64, 0u64, 0i64);
    let (mut saw_older_strict, mut saw_older_idem, mut accepted_before) = (false, false, false);
    for (i, op) in c.ops.iter().enumerate() {
        sys.slot = (sys.slot as i64 + op.slot_delta as i64).max(0) as u64;
        sys.unix_timestamp += op.clock_delta as i64;
        svm::set_sysvars(sys);
        let now = sys.unix_timestamp;
        let future_limit = (now as i128 + c.future_excess as i128).min(i64::MAX as i128);
        let want_ts: i128 = match op.ts_kind {
            0 => now as i128 + op.ts_off as i128,
            1 => future_limit,
            2 => future_limit + 1,
            3 => last_ts as i128,
            4 => last_ts as i128 - 1,
            _ => last_ts as i128 + 1,
        };
        let observations_ts = want_ts.clamp(0, u32::MAX as i128) as u32;
        let ts = observations_ts as i64;
        let expires_at = (now as i128 + op.exp_off as i128).clamp(0, u32::MAX as i128) as u32;
        let p = op.price.min(10u128.pow(36)) as i128;
        let (bid, price, ask) = match op.shape {
            0 => (p + 1 + op.below as i128, p, p + 1 + op.below as i128 + op.above as i128),
            1 => ((p - 1 - op.above as i128 - op.below as i128).max(0), p, (p - 1 - op.above as i128).max(-1)),
            2 => (-1 - p - op.below as i128, -1 - p, op.above as i128),
            3 => (-1 - op.below as i128, p, p + op.above as i128),
            _ => ((p - op.below as i128).max(0), p, p + op.above as i128),
        };
        let obs_ns = observations_ts as i128 * NANOS as i128;
        let last_update_ns = (obs_ns - op.last_update_off_ms as i128 * 1_000_000).clamp(0, u64::MAX as i128) as u64;
        let mut report = Report { version, feed_id: feed_id.to_bytes(), observations_ts, expires_at, price, bid, ask, last_update_ns, status: op.status as u32 };
        if op.fault == 1 {
            report.feed_id[31] ^= 1;
        }
        let bytes = if op.fault == 7 {
            Compressor::compress(&full_report(&encode_blob(&report))[..100]).map_err(|e| e.to_string())?
        } else {
            compressed_report(&report)?
        };
        let signer = match op.fault {
            2 => k.stranger,
            3 => fx.order_keeper,
            _ => fx.pk,
        };
        let (va, ac) = match op.fault {
            5 => (fx.verifier_account, k.stranger),
            6 => (fx.access_controller, fx.access_controller),
            _ => (fx.verifier_account, fx.access_controller),
        };
        if op.fault == 4 {
            setup(&mut fx.w, "revoke_role(PRICE_KEEPER)", &k.ix_revoke_role(k.admin, fx.pk, RoleKey::PRICE_KEEPER))?;
        }

        // ---- reference decision
        let converted = feed_price_of(&report);
        let mut reasons: Vec<&'static str> = vec![];
        if op.fault != 0 {
            reasons.push(match op.fault {
                1 => "wrong_feed_id",
                2 | 3 => "wrong_signer",
                4 => "role_revoked",
                5 | 6 => "verifier_accounts",
                _ => "undecodable",
            });
        }
        if (expires_at as i64) < now {
            reasons.push("expired");
        }
        if converted.is_none() {
            reasons.push("bad_report_values");
        }
        if sys.slot < last_slot || now < last_at {
            reasons.push("clock_regressed");
        }
        let older = ts < last_ts;
        let expected = if !reasons.is_empty() {
            Outcome::Reject
        } else if older {
            if op.idempotent {
                Outcome::Skip
            } else {
                reasons.push("older_strict");
                Outcome::Reject
            }
        } else if (ts as i128) > future_limit {
            reasons.push("future");
            Outcome::Reject
        } else {
            Outcome::Accept
        };
        saw_older_strict |= older && !op.idempotent && reasons == ["older_strict"];
        saw_older_idem |= expected == Outcome::Skip;

        // ---- the real instruction
        let ix = fx.ix_update(signer, feed, bytes, op.idempotent, va, ac);
        let before = fx.w.vm.accounts.clone();
        let res = fx.w.process(&ix);
        let ret = returned_bool();
        let raw_return = get_return_data();
        let desc = format!("update {i} (v{version}, ts {ts}, last {last_ts}, now {now}, slot {}, last slot {last_slot}, last at {last_at}, expires {expires_at}, future excess {}, idempotent {}, fault {}, bid/price/ask {bid}/{price}/{ask})", sys.slot, c.future_excess, op.idempotent, op.fault);
        match (expected, &res) {
            (Outcome::Accept, Ok(())) => {
                let conv = converted.expect("accept implies a converted price");
                let mut want = before.clone();
                let acct = want.get_mut(&feed).ok_or("feed account missing")?;
                acct.data[FEED_SLOT_OFF..FEED_SLOT_OFF + 8].copy_from_slice(&sys.slot.to_le_bytes());
                acct.data[FEED_AT_OFF..FEED_AT_OFF + 8].copy_from_slice(&now.to_le_bytes());
                acct.data[FEED_PRICE_OFF..FEED_PRICE_OFF + FEED_PRICE_LEN].copy_from_slice(bytemuck::bytes_of(&conv));
                if fx.w.vm.accounts != want {
                    let got = fx.w.vm.accounts.get(&feed).map(|a| a.data[FEED_SLOT_OFF..FEED_PRICE_OFF + FEED_PRICE_LEN].to_vec());
                    return Err(format!("{desc}: accepted, but the accounts differ from the model (feed fields {got:?}, expected slot {} at {now} price {:?})", sys.slot, bytemuck::bytes_of(&conv)));
                }
                if op.idempotent && ret != Some(true) {
                    return Err(format!("{}: updated, but the instruction returned {ret:?}", desc));
                }
                if !op.idempotent {
                    // the strict variant returns nothing itself: the return data still visible is the verifier's
                    // (borsh Vec<u8> of the report blob), i.e. the CPI really executed the mock verifier
                    let blob = encode_blob(&report);
                    let mut want_ret = (blob.len() as u32).to_le_bytes().to_vec();
                    want_ret.extend_from_slice(&blob);
                    if raw_return != Some((gmsol_mock_chainlink_verifier::ID, want_ret)) {
                        return Err(format!("{desc}: the verifier CPI did not return the report blob"));
                    }
                    rec.class("verifier_cpi_observed");
                }
                rec.class("accepted");
                rec.class_if(ts == last_ts && accepted_before, "accepted_equal_ts");
                accepted_before = true;
                rec.class_if(ts as i128 == future_limit, "accepted_at_future_limit");
                rec.class_if(matches!(version, 8 | 11), "accepted_with_last_update");
                last_ts = ts;
                last_slot = sys.slot;
                last_at = now;
            }
            (Outcome::Skip, Ok(())) => {
                if fx.w.vm.accounts != before {
                    return Err(format!("{}: a skipped (idempotent, older) update changed an account", desc));
                }
                if ret != Some(false) {
                    return Err(format!("{}: skipped, but the instruction returned {ret:?}", desc));
                }
                rec.class("skipped_idempotent");
            }
            (Outcome::Reject, Err(e)) => {
                if fx.w.vm.accounts != before {
                    return Err(format!("{}: a rejected update changed an account", desc));
                }
                rec.class_if(svm::is_panic(e), "rejected_by_panic");
                if reasons.len() == 1 {
                    rec.class(match reasons[0] {
                        "wrong_feed_id" => "rejected_only_wrong_feed_id",
                        "wrong_signer" => "rejected_only_wrong_signer",
                        "role_revoked" => "rejected_only_role_revoked",
                        "verifier_accounts" => "rejected_only_verifier_accounts",
                        "undecodable" => "rejected_only_undecodable",
                        "expired" => "rejected_only_expired",
                        "bad_report_values" => "rejected_only_bad_values",
                        "clock_regressed" => "rejected_only_clock_regressed",
                        "older_strict" => "rejected_only_older_strict",
                        _ => "rejected_only_future",
                    });
                    rec.class_if(reasons[0] == "future" && ts as i128 == future_limit + 1, "rejected_one_past_future_limit");
                } else {
                    rec.class("rejected_several_reasons");
                }
            }
            _ => return Err(format!("{}: got {res:?} (returned {ret:?}), expected {expected:?} {reasons:?}", desc)),
        }
        if op.fault == 4 {
            setup(&mut fx.w, "grant_role(PRICE_KEEPER)", &k.ix_grant_role(k.admin, fx.pk, RoleKey::PRICE_KEEPER))?;
        }
        // invariants of the stored feed, read back from the account
        let data = fx.w.vm.data(&feed);
        let stored: PriceFeedPrice = bytemuck::pod_read_unaligned(&data[FEED_PRICE_OFF..FEED_PRICE_OFF + FEED_PRICE_LEN]);
        if stored.ts() != last_ts {
            return Err(format!("{}: stored price timestamp {} != last accepted {last_ts}", desc, stored.ts()));
        }
        if !(stored.min_price() <= stored.price() && stored.price() <= stored.max_price()) {
            return Err(format!("{}: stored price violates min <= price <= max", desc));
        }
    }
    rec.class_if(saw_older_strict, "older_update_strict");
    rec.class_if(saw_older_idem, "older_update_idempotent");
    rec.nontrivial_if(saw_older_strict || saw_older_idem);
    svm::set_sysvars(Sysvars::default());
    Ok(())
}

pub fn run_c25_instr(ctx: &mut Ctx) {
    ctx.rule("instruction path: cases = one of five custom price feeds (report schema v3, v2, v7, v8, v11) and 1..13 `update_price_feed_with_chainlink[_idempotent]` instructions with hand-encoded, ABI-framed, snappy-compressed full reports verified by the repository's mock verifier program through the store's CPI; per update: slot/clock deltas (incl. regressions), observation timestamp relative to the clock / exactly at and one past clock + future excess / equal to, one below and one above the last accepted timestamp, expiry around the clock, bid/price/ask (well ordered, bid > price, ask < price, negative), last-update offsets and status codes for v8/v11, idempotent flag, and faults (report of another feed id, stranger / ORDER_KEEPER as signer, PRICE_KEEPER revoked through revoke_role, wrong verifier accounts, truncated report); future excess set with insert_amount; oracle = reference model of the feed: Accept iff no fault, not expired, report values well formed, clock and slot not regressed, timestamp >= last accepted and <= clock + future excess; idempotent and older => Ok, returned false, every account byte-identical; Reject => error and every account byte-identical; Accept => the account map equals the previous map with exactly slot, publication time and the documented PriceFeedPrice (decimals 18, flags, status, last-update seconds, ts, price, min, max) written into the feed; stored timestamp never decreases, min <= price <= max; non-trivial = sequence contains an older update that is the only reason to refuse/skip");
    ctx.assume("svm-lite runtime; the mock verifier accepts any decodable report from the store PDA (signature verification itself is Chainlink's program and out of scope); reports keep bid/price/ask below 1e36 so the u128 storage divisor is 1 (scaling is C28)");
    let n = ctx.cases(6_000, 300_000);
    ctx.search("feed_ix", n, upd_case, check_update);
    for (cl, min) in [
        ("accepted", 1_500),
        ("verifier_cpi_observed", 1_000),
        ("accepted_equal_ts", 400),
        ("accepted_at_future_limit", 250),
        ("accepted_with_last_update", 400),
        ("skipped_idempotent", 250),
        ("older_update_strict", 250),
        ("older_update_idempotent", 250),
        ("rejected_only_older_strict", 250),
        ("rejected_only_future", 500),
        ("rejected_one_past_future_limit", 220),
        ("rejected_only_expired", 350),
        ("rejected_only_bad_values", 700),
        ("rejected_only_wrong_feed_id", 200),
        ("rejected_only_wrong_signer", 350),
        ("rejected_only_role_revoked", 200),
        ("rejected_only_verifier_accounts", 350),
        ("rejected_only_undecodable", 200),
        ("rejected_only_clock_regressed", 350),
    ] {
        ctx.floor(&format!("feed_ix:{cl}"), min);
    }
}

// =========================================================================================== C24I / C29I

#[derive(Debug, Clone, Serialize, Deserialize)]
pub struct TokSetup {
    pub heartbeat: u32,
    pub precision: u8,
    pub adjustment: u32,
    /// max deviation ratio (factor = ratio * 1e12); 0 = not configured
    pub ratio: u32,
    pub allow_adjust: bool,
    /// 0 none; 1 expected provider is Pyth; 2 the configured feed id differs; 3 token disabled
    pub config_fault: u8,
    /// 0: clock + ts_off; 1: exactly at the max age; 2: one second past it; 3: exactly at the future limit;
    /// 4: one past; 5: exactly one heartbeat old; 6: one second more
    pub ts_kind: u8,
    pub ts_off: i64,
    pub slot_back: u32,
    /// reference price in precision steps
    pub ref_steps: u64,
    /// (kind, value): 0 absolute steps; 1 the band edge + (value - 2) steps; 2 far (value steps)
    pub below: (u8, u32),
    pub above: (u8, u32),
    pub fracs: [u16; 3],
}

#[derive(Debug, Clone, Serialize, Deserialize)]
pub struct SetCase {
    pub now_off: u32,
    pub slot_off: u32,
    pub max_age: u64,
    pub range: u64,
    pub future: u64,
    pub toks: Vec<TokSetup>,
    /// (token selector 0..=4 where 4 = a token missing from the map, feed kind: 0 own feed, 1 feed of the
    /// next token, 2 a system wallet, 3 a store-owned account that is not a price feed)
    pub picks: Vec<(u8, u8)>,
    /// 0 the oracle authority; 1 stranger; 2 another ORACLE_CONTROLLER that is not the oracle's authority
    pub authority_fault: u8,
    pub drop_last_feed: bool,
}

/// Per-token generator. Two profiles: "benign" (fresh, well-formed, in band; includes the exactly-at-the-limit
/// timestamps, non-zero timestamp adjustments and small heartbeats) and "wild" (every field drawn from its
/// full mixture, including the one-second-past limits, faults and extreme prices). With `adjust_focus` the
/// timing is always benign and the price part concentrates on the deviation band edge.
fn tok_setup(adjust_focus: bool) -> BoxedStrategy<TokSetup> {
    let wild_timing = (
        prop_oneof![8 => Just(3_600u32), 2 => 0u32..=120, 1 => any::<u32>()],
        prop_oneof![4 => Just(0u32), 10 => 1u32..=10, 2 => 11u32..=400, 1 => any::<u32>()],
        prop_oneof![6 => Just(0u8), 1 => Just(1u8), 3 => Just(2u8), 1 => Just(3u8), 3 => Just(4u8), 1 => Just(5u8), 3 => Just(6u8)],
        prop_oneof![12 => -60i64..=4, 1 => -400i64..=60, 1 => -100_000i64..=100_000],
    );
    let benign_timing = (
        Just(3_600u32),
        prop_oneof![2 => Just(0u32), 6 => 1u32..=10, 1 => 11u32..=40],
        prop_oneof![10 => Just(0u8), 2 => Just(1u8), 2 => Just(3u8), 2 => Just(5u8)],
        -20i64..=0,
    );
    let timing = if adjust_focus { benign_timing.boxed() } else { prop_oneof![3 => benign_timing, 1 => wild_timing].boxed() };
    let wild_config = (
        prop_oneof![30 => 0u8..=8, 2 => 9u8..=11, 1 => 12u8..=16],
        prop_oneof![6 => Just(0u32), 4 => 1u32..=2_000_000, 1 => any::<u32>()],
        prop_oneof![3 => Just(false), 1 => Just(true)],
        prop_oneof![20 => Just(0u8), 1 => Just(1u8), 1 => Just(2u8), 1 => Just(3u8)],
    );
    let benign_config = (0u8..=8, prop_oneof![3 => Just(0u32), 1 => 100_000u32..=2_000_000], any::<bool>(), Just(0u8));
    let focus_config = (
        prop_oneof![30 => 0u8..=8, 2 => 9u8..=11],
        prop_oneof![1 => Just(0u32), 12 => 1u32..=2_000_000, 2 => 2_000_000u32..=200_000_000, 1 => any::<u32>()],
        prop_oneof![5 => Just(true), 1 => Just(false)],
        Just(0u8),
    );
    let config = if adjust_focus { focus_config.boxed() } else { prop_oneof![3 => benign_config, 1 => wild_config].boxed() };
    let off = |edge: u32, far: u32| prop_oneof![8 => (Just(0u8), 0u32..=50), edge => (Just(1u8), 0u32..=4), far => (Just(2u8), 1u32..=1_000_000)];
    let wild_price = (
        prop_oneof![30 => 1u64..=5_000_000, 4 => 5_000_000u64..=4_000_000_000, 1 => Just(0u64), 1 => (0u64..=3).prop_map(|d| u32::MAX as u64 - d), 1 => (u32::MAX as u64 + 1)..=6_000_000_000],
        off(3, 2),
        off(3, 2),
    );
    let benign_price = (100_000u64..=5_000_000, (Just(0u8), 0u32..=50), (Just(0u8), 0u32..=50));
    let focus_price = (prop_oneof![40 => 1u64..=5_000_000, 4 => 5_000_000u64..=4_000_000_000, 1 => (0u64..=3).prop_map(|d| u32::MAX as u64 - d)], off(24, 4), off(24, 4));
    let price = if adjust_focus { focus_price.boxed() } else { prop_oneof![3 => benign_price, 1 => wild_price].boxed() };
    (timing, config, price, 0u32..=1_000, 0u32..=60, any::<[u16; 3]>())
        .prop_map(|((heartbeat, adjustment, ts_kind, ts_off), (precision, ratio, allow_adjust, config_fault), (ref_steps, below, above), slot_back, small_heartbeat, fracs)| TokSetup {
            // the heartbeat limits are only reachable (before the max age) with a short heartbeat
            heartbeat: if matches!(ts_kind, 5 | 6) { small_heartbeat } else { heartbeat },
            precision,
            adjustment,
            ratio,
            allow_adjust,
            config_fault,
            ts_kind,
            ts_off,
            slot_back,
            ref_steps,
            below,
            above,
            fracs,
        })
        .boxed()
}

fn set_case(adjust_focus: bool) -> BoxedStrategy<SetCase> {
    let pick = if adjust_focus {
        (0u8..4, Just(0u8)).boxed()
    } else {
        (prop_oneof![80 => 0u8..4, 1 => Just(4u8)], prop_oneof![80 => Just(0u8), 1 => Just(1u8), 1 => Just(2u8), 1 => Just(3u8)]).boxed()
    };
    let max_age = if adjust_focus { prop_oneof![8 => 60u64..=300, 1 => 0u64..=60, 1 => any::<u64>()].boxed() } else { prop_oneof![8 => 100u64..=300, 2 => 0u64..=100, 1 => 300u64..=100_000, 1 => any::<u64>()].boxed() };
    (
        (0u32..=100_000_000, 0u32..=1_000_000),
        (max_age, prop_oneof![6 => Just(100_000u64), 3 => 0u64..=60, 1 => any::<u64>()], prop_oneof![6 => 0u64..=30, 1 => any::<u64>()]),
        proptest::collection::vec(tok_setup(adjust_focus), 4),
        prop_oneof![30 => proptest::collection::vec(pick.clone(), 1..=4), 1 => proptest::collection::vec(pick, 0..=6)],
        if adjust_focus { Just(0u8).boxed() } else { prop_oneof![50 => Just(0u8), 1 => Just(1u8), 1 => Just(2u8)].boxed() },
        if adjust_focus { Just(false).boxed() } else { prop_oneof![60 => Just(false), 1 => Just(true)].boxed() },
    )
        .prop_map(|((now_off, slot_off), (max_age, range, future), toks, picks, authority_fault, drop_last_feed)| SetCase { now_off, slot_off, max_age, range, future, toks, picks, authority_fault, drop_last_feed })
        .boxed()
}

/// What one token's config and feed state look like after the (real-instruction) setup, in model terms.
struct TokState {
    ts: i64,
    slot: u64,
    /// raw 18-decimal report values
    bid: u128,
    price: u128,
    ask: u128,
}

/// The price the oracle must store for a token: (min steps, max steps, decimal multiplier, adjusted?)
struct Priced {
    min: BigInt,
    max: BigInt,
    reference: BigInt,
    mult: u32,
    dev: Option<BigInt>,
    clamped_min: bool,
    clamped_max: bool,
}

/// floor(raw * 10^precision / 10^18): the price of one token in precision steps.
fn to_steps(raw: u128, precision: u8) -> BigInt {
    floor_div(&(b(raw) * pow10(precision as u32)), &pow10(18))
}

/// Reference predicate for one (token, feed) pair. `Ok` = the adjusted timestamp, slot and price the
/// oracle must record, `Err` = every documented reason to refuse that applies.
#[allow(clippy::too_many_arguments)]
fn judge_token(t: &TokSetup, s: &TokState, decimals: u8, now: i64, max_age: u64, future: u64) -> Result<(i128, u64, Priced), Vec<&'static str>> {
    let mut reasons: Vec<&'static str> = vec![];
    // heartbeat: a feed older than the heartbeat duration has not been updated
    if (now as i128) > s.ts as i128 && (now as i128 - s.ts as i128) > t.heartbeat as i128 {
        reasons.push("heartbeat");
    }
    // timestamps
    let ts_adj = s.ts as i128 - t.adjustment as i128;
    let expiration = ts_adj + max_age as i128;
    if expiration > i64::MAX as i128 {
        reasons.push("expiration_overflow");
    } else if expiration < now as i128 {
        reasons.push("too_old");
    }
    if (now as i128 + future as i128).min(i64::MAX as i128) < s.ts as i128 {
        reasons.push("future");
    }
    // price
    if decimals as u32 + t.precision as u32 > 20 {
        reasons.push("precision");
        return Err(reasons);
    }
    let mult = 20 - decimals as u32 - t.precision as u32;
    let step = pow10(mult);
    let (mut min, reference, mut max) = (to_steps(s.bid, t.precision), to_steps(s.price, t.precision), to_steps(s.ask, t.precision));
    if max > b(u32::MAX) {
        reasons.push("price_overflow");
        return Err(reasons);
    }
    let (mut clamped_min, mut clamped_max) = (false, false);
    let mut dev_out = None;
    if t.ratio != 0 {
        let r = &reference * &step;
        let dev = floor_div(&(&r * b(t.ratio) * pow10(12)), &pow10(20));
        let out_max = ((&max * &step) - &r).abs() > dev;
        let out_min = ((&min * &step) - &r).abs() > dev;
        if t.allow_adjust && (out_max || out_min) {
            // clamp into [reference - dev, reference + dev], rounding inwards; all or nothing
            let new_max = floor_div(&(&r + &dev), &step);
            let low = &r - &dev;
            let representable = (!out_max || new_max <= b(u32::MAX)) && (!out_min || !low.is_negative());
            if representable {
                if out_max {
                    max = new_max;
                    clamped_max = true;
                }
                if out_min {
                    min = ceil_div(&low, &step);
                    clamped_min = true;
                }
            }
        }
        if dev.is_positive() {
            // the validator compares against the deviation rounded up to one precision step
            let rounded = ceil_div(&dev, &step);
            if rounded > b(u32::MAX) {
                reasons.push("deviation_not_representable");
            } else {
                let band = rounded * &step;
                if ((&max * &step) - &r).abs() > band || ((&min * &step) - &r).abs() > band {
                    reasons.push("deviation");
                }
            }
        }
        dev_out = Some(dev);
    }
    if min.is_zero() {
        reasons.push("zero_min");
    }
    if max < min {
        reasons.push("inverted");
    }
    if reasons.is_empty() {
        Ok((ts_adj, s.slot, Priced { min, max, reference, mult, dev: dev_out, clamped_min, clamped_max }))
    } else {
        Err(reasons)
    }
}

fn rejected_class(reason: &str) -> &'static str {
    match reason {
        "heartbeat" => "rejected_only_heartbeat",
        "expiration_overflow" => "rejected_only_expiration_overflow",
        "too_old" => "rejected_only_too_old",
        "future" => "rejected_only_future",
        "precision" => "rejected_only_precision",
        "price_overflow" => "rejected_only_price_overflow",
        "deviation_not_representable" => "rejected_only_deviation_not_representable",
        "deviation" => "rejected_only_deviation",
        "zero_min" => "rejected_only_zero_min",
        "inverted" => "rejected_only_inverted",
        "unknown_token" => "rejected_only_unknown_token",
        "token_disabled" => "rejected_only_token_disabled",
        "provider" => "rejected_only_provider",
        "feed_id" => "rejected_only_feed_id",
        "foreign_feed" => "rejected_only_foreign_feed",
        "not_a_feed_account" => "rejected_only_not_a_feed_account",
        "missing_feed_account" => "rejected_only_missing_feed_account",
        "authority" => "rejected_only_authority",
        "range" => "rejected_only_range",
        _ => "rejected_only_other",
    }
}

fn read_oracle(w: &World1) -> Result<Oracle, String> {
    w.read::<Oracle>(&w.k.oracle).ok_or_else(|| "oracle account unreadable".to_string())
}

fn check_cleared(w: &World1, tokens: &[Pubkey; 4], what: &str) -> Result<(), String> {
    let o = read_oracle(w)?;
    if !o.is_cleared() || o.min_oracle_slot().is_some() || o.min_oracle_ts() != i64::MAX || o.max_oracle_ts() != i64::MIN {
        return Err(format!("{what}: the oracle is not in the cleared state (cleared {}, slot {:?}, ts {}..{})", o.is_cleared(), o.min_oracle_slot(), o.min_oracle_ts(), o.max_oracle_ts()));
    }
    for t in tokens {
        if o.get_primary_price(t, true).is_ok() {
            return Err(format!("{what}: a cleared oracle still serves a price for {t}"));
        }
    }
    Ok(())
}

fn check_set_prices(c: &SetCase, rec: &mut Rec, adjust_focus: bool) -> Result<(), String> {
    let mut fx = Fx::fresh()?;
    let k = fx.w.k.clone();
    let now = 1_700_000_000i64 + c.now_off as i64;
    let slot = 5_000_000u64 + c.slot_off as u64;
    let ck = fx.ck;
    let amount = |key: AmountKey, v: u64| k.ix_insert_amount(ck, &key.to_string(), v);

    // ---- setup with real instructions: token configs
    let pyth_feed = svm::key_of("oix-pyth-feed");
    // only the tokens the call refers to are configured and get a feed state (a foreign feed account is
    // refused for its feed id alone, whatever its state)
    let used: Vec<bool> = (0..4).map(|i| c.picks.iter().any(|(sel, _)| *sel as usize % 5 == i)).collect();
    for i in 0..4 {
        if !used[i] {
            continue;
        }
        let t = &c.toks[i];
        let configured_feed = if t.config_fault == 2 { svm::key_of(&format!("oix-other-feed-id-{i}")) } else { fx.feeds[i].0 };
        let mut params = UpdateTokenConfigParams::default()
            .update_price_feed(&CLDS, configured_feed, Some(t.adjustment))
            .map_err(|e| e.to_string())?
            .with_heartbeat_duration(t.heartbeat)
            .with_precision(t.precision)
            .with_expected_provider(CLDS);
        if t.config_fault == 1 {
            params = params.update_price_feed(&PriceProviderKind::Pyth, pyth_feed, None).map_err(|e| e.to_string())?.with_expected_provider(PriceProviderKind::Pyth);
        }
        let push = if i < 2 {
            k.ix_push_to_token_map(fx.mk, k.token_map, fx.tokens[i], TOKEN_NAMES[i], params, true, false)
        } else {
            k.ix_push_to_token_map_synthetic(fx.mk, k.token_map, fx.tokens[i], TOKEN_DECIMALS[i], TOKEN_NAMES[i], params, true, false)
        };
        setup(&mut fx.w, "push_to_token_map(update)", &push)?;
        if t.ratio != 0 {
            setup(&mut fx.w, "set_feed_config_v2", &k.ix_set_feed_config_v2(fx.mk, fx.tokens[i], CLDS as u8, None, None, Some(t.ratio as u128 * 10u128.pow(12))))?;
        }
        if t.allow_adjust {
            setup(&mut fx.w, "toggle_token_price_adjustment", &k.ix_toggle_token_price_adjustment(fx.mk, fx.tokens[i], true))?;
        }
        if t.config_fault == 3 {
            setup(&mut fx.w, "toggle_token_config", &k.ix_toggle_token_config(fx.mk, fx.tokens[i], false))?;
        }
    }

    // ---- feed states through the real chainlink update (any observation timestamp is admitted while the
    // feeds are written; the case's future excess is configured afterwards)
    setup(&mut fx.w, "insert_amount(future, setup)", &amount(AmountKey::OracleMaxFutureTimestampExcess, u64::MAX))?;
    let mut states: Vec<TokState> = vec![];
    for i in 0..4 {
        if !used[i] {
            states.push(TokState { ts: 0, slot: 0, bid: 0, price: 0, ask: 0 });
            continue;
        }
        let t = &c.toks[i];
        let want_ts: i128 = match t.ts_kind {
            0 => now as i128 + t.ts_off as i128,
            1 => now as i128 - c.max_age as i128 + t.adjustment as i128,
            2 => now as i128 - c.max_age as i128 + t.adjustment as i128 - 1,
            3 => now as i128 + c.future as i128,
            4 => now as i128 + c.future as i128 + 1,
            5 => now as i128 - t.heartbeat as i128,
            _ => now as i128 - t.heartbeat as i128 - 1,
        };
        let ts = want_ts.clamp(0, u32::MAX as i128) as u32;
        // price triple in precision steps, with sub-step fractions that the conversion must floor away
        let step18: u128 = if t.precision <= 18 { 10u128.pow(18 - t.precision as u32) } else { 1 };
        let dev_steps = (t.ref_steps as u128 * t.ratio as u128 / 100_000_000) as i128;
        let steps_of = |(kind, v): (u8, u32)| -> u128 {
            match kind {
                0 | 2 => v as u128,
                _ => (dev_steps + v as i128 - 2).max(0) as u128,
            }
        };
        let raw = |steps: u128, frac: u16| steps * step18 + ((frac as u128 * step18) >> 16);
        let mut triple = [
            raw((t.ref_steps as u128).saturating_sub(steps_of(t.below)), t.fracs[0]),
            raw(t.ref_steps as u128, t.fracs[1]),
            raw(t.ref_steps as u128 + steps_of(t.above), t.fracs[2]),
        ];
        triple.sort();
        let feed_slot = slot - t.slot_back as u64;
        svm::set_sysvars(Sysvars { slot: feed_slot, unix_timestamp: now, last_restart_slot: 0 });
        let report = Report { version: 3, feed_id: fx.feeds[i].0.to_bytes(), observations_ts: ts, expires_at: u32::MAX, price: triple[1] as i128, bid: triple[0] as i128, ask: triple[2] as i128, last_update_ns: 0, status: 0 };
        let ix = fx.ix_update(fx.pk, fx.feeds[i].1, compressed_report(&report)?, false, fx.verifier_account, fx.access_controller);
        setup(&mut fx.w, "update_price_feed_with_chainlink", &ix)?;
        states.push(TokState { ts: ts as i64, slot: feed_slot, bid: triple[0], price: triple[1], ask: triple[2] });
    }
    setup(&mut fx.w, "insert_amount(max age)", &amount(AmountKey::OracleMaxAge, c.max_age))?;
    setup(&mut fx.w, "insert_amount(range)", &amount(AmountKey::OracleMaxTimestampRange, c.range))?;
    setup(&mut fx.w, "insert_amount(future)", &amount(AmountKey::OracleMaxFutureTimestampExcess, c.future))?;
    svm::set_sysvars(Sysvars { slot, unix_timestamp: now, last_restart_slot: 0 });
    check_cleared(&fx.w, &fx.tokens, "before set_prices")?;

    // ---- the call and the reference decision
    let unknown_token = svm::key_of("oix-unknown-token");
    let mut tokens: Vec<Pubkey> = vec![];
    let mut accounts: Vec<Pubkey> = vec![];
    for (sel, kind) in &c.picks {
        let i = *sel as usize % 5;
        tokens.push(if i == 4 { unknown_token } else { fx.tokens[i] });
        accounts.push(match kind {
            0 => fx.feeds[i % 4].1,
            1 => fx.feeds[(i + 1) % 4].1,
            2 => k.stranger,
            _ => k.store,
        });
    }
    if c.drop_last_feed {
        accounts.pop();
    }
    let authority = match c.authority_fault {
        0 => fx.oc,
        1 => k.stranger,
        _ => fx.other_oc,
    };

    let mut verdict: Result<(), (usize, Vec<&'static str>)> = Ok(());
    let mut expected: Vec<(usize, Priced)> = vec![]; // last write per token wins
    let (mut min_ts, mut max_ts, mut min_slot): (Option<i128>, Option<i128>, Option<u64>) = (None, None, None);
    if c.authority_fault != 0 {
        verdict = Err((0, vec!["authority"]));
    } else if c.drop_last_feed && !tokens.is_empty() {
        verdict = Err((tokens.len() - 1, vec!["missing_feed_account"]));
    } else {
        for (n, (sel, kind)) in c.picks.iter().enumerate() {
            let i = *sel as usize % 5;
            let mut reasons: Vec<&'static str> = vec![];
            if i == 4 {
                reasons.push("unknown_token");
            } else {
                let t = &c.toks[i];
                if t.config_fault == 3 {
                    reasons.push("token_disabled");
                }
                match kind {
                    0 => {
                        if t.config_fault == 1 {
                            reasons.push("provider");
                        }
                        if t.config_fault == 2 {
                            reasons.push("feed_id");
                        }
                    }
                    1 => reasons.push("foreign_feed"),
                    _ => reasons.push("not_a_feed_account"),
                }
            }
            if reasons.is_empty() {
                match judge_token(&c.toks[i], &states[i], TOKEN_DECIMALS[i], now, c.max_age, c.future) {
                    Ok((ts_adj, s, priced)) => {
                        min_ts = Some(min_ts.map_or(ts_adj, |x| x.min(ts_adj)));
                        max_ts = Some(max_ts.map_or(ts_adj, |x| x.max(ts_adj)));
                        min_slot = Some(min_slot.map_or(s, |x| x.min(s)));
                        expected.retain(|(j, _)| *j != i);
                        expected.push((i, priced));
                    }
                    Err(r) => reasons = r,
                }
            }
            if !reasons.is_empty() {
                verdict = Err((n, reasons));
                break;
            }
        }
        if verdict.is_ok() {
            if let (Some(a), Some(z)) = (min_ts, max_ts) {
                if (z - a) as u128 > c.range as u128 {
                    verdict = Err((tokens.len(), vec!["range"]));
                }
            }
        }
    }

    let ix = k.ix_set_prices_from_price_feed(authority, k.oracle, tokens.clone(), &accounts);
    let before = fx.w.vm.accounts.clone();
    let res = fx.w.process(&ix);
    let describe = |i: usize| -> String {
        if i < c.picks.len() {
            let j = c.picks[i].0 as usize % 5;
            if j < 4 {
                let s = &states[j];
                return format!("pick {i} = token {j} (feed kind {}): ts {} slot {} bid/price/ask {}/{}/{}, {:?}; now {now}, max age {}, range {}, future {}", c.picks[i].1, s.ts, s.slot, s.bid, s.price, s.ask, c.toks[j], c.max_age, c.range, c.future);
            }
        }
        format!("pick {i}; now {now}, max age {}, range {}, future {}", c.max_age, c.range, c.future)
    };

    if tokens.is_empty() {
        // nothing to set: not covered by the property text; whatever the result, the oracle stays cleared
        check_cleared(&fx.w, &fx.tokens, "after set_prices with no tokens")?;
        rec.class(if res.is_ok() { "no_tokens_ok_still_cleared" } else { "no_tokens_refused" });
        return Ok(());
    }
    match (&verdict, &res) {
        (Err((n, reasons)), Err(e)) => {
            if fx.w.vm.accounts != before {
                return Err(format!("a rejected set_prices_from_price_feed changed an account ({})", describe(*n)));
            }
            check_cleared(&fx.w, &fx.tokens, "after a rejected set_prices")?;
            rec.class("rejected");
            rec.class_if(svm::is_panic(e), "rejected_by_panic");
            if reasons.len() == 1 {
                rec.class(rejected_class(reasons[0]));
                if *n < c.picks.len() && (c.picks[*n].0 as usize % 5) < 4 {
                    let t = &c.toks[c.picks[*n].0 as usize % 5];
                    rec.class_if(reasons[0] == "too_old" && t.ts_kind == 2, "rejected_one_second_past_max_age");
                    rec.class_if(reasons[0] == "too_old" && t.adjustment != 0, "rejected_too_old_with_adjustment");
                    rec.class_if(reasons[0] == "future" && t.ts_kind == 4, "rejected_one_second_past_future_limit");
                    rec.class_if(reasons[0] == "heartbeat" && t.ts_kind == 6, "rejected_one_second_past_heartbeat");
                    rec.class_if(reasons[0] == "deviation" && !t.allow_adjust, "rejected_out_of_band_without_adjustment");
                }
            }
            rec.nontrivial();
        }
        (Ok(()), Ok(())) => {
            // only the oracle changed
            let mut want_other = before.clone();
            want_other.remove(&k.oracle);
            let mut got_other = fx.w.vm.accounts.clone();
            let oracle_acct: Acct = got_other.remove(&k.oracle).ok_or("oracle account missing")?;
            if want_other != got_other {
                return Err("an accepted set_prices_from_price_feed changed an account other than the oracle".into());
            }
            let o = read_oracle(&fx.w)?;
            if o.is_cleared() {
                return Err("prices accepted but the oracle is still flagged cleared".into());
            }
            let (a, z, s) = (min_ts.ok_or("no tokens")?, max_ts.ok_or("no tokens")?, min_slot.ok_or("no tokens")?);
            if o.min_oracle_ts() as i128 != a || o.max_oracle_ts() as i128 != z || o.min_oracle_slot() != Some(s) {
                return Err(format!("oracle ranges: ts {}..{} slot {:?}, expected ts {a}..{z} slot {s} ({})", o.min_oracle_ts(), o.max_oracle_ts(), o.min_oracle_slot(), describe(0)));
            }
            for i in 0..4 {
                let got = o.get_primary_price(&fx.tokens[i], true).ok();
                match expected.iter().find(|(j, _)| *j == i) {
                    None => {
                        if got.is_some() {
                            return Err(format!("the oracle serves a price for token {i}, which was not in the list"));
                        }
                    }
                    Some((_, p)) => {
                        let step = pow10(p.mult);
                        let (umin, umax) = (&p.min * &step, &p.max * &step);
                        let got = got.ok_or_else(|| format!("no price stored for accepted token {i}"))?;
                        if b(got.min) != umin || b(got.max) != umax {
                            return Err(format!("token {i}: stored unit prices {}..{}, expected {umin}..{umax} (reference {}, deviation {:?}, clamped min/max {}/{}; {:?}, bid/price/ask {}/{}/{})", got.min, got.max, &p.reference * &step, p.dev, p.clamped_min, p.clamped_max, c.toks[i], states[i].bid, states[i].price, states[i].ask));
                        }
                        // the property itself, independent of the clamp model
                        if got.min == 0 || got.min > got.max {
                            return Err(format!("token {i}: accepted price {}..{} violates 0 < min <= max", got.min, got.max));
                        }
                        let t = &c.toks[i];
                        if let Some(dev) = &p.dev {
                            let r = &p.reference * &step;
                            let tolerance = if t.allow_adjust { dev.clone() } else { ceil_div(dev, &step) * &step };
                            if dev.is_positive() && ((b(got.max) - &r).abs() > tolerance || (b(got.min) - &r).abs() > tolerance) {
                                return Err(format!("token {i}: accepted price {}..{} is outside reference {r} +- {tolerance} (adjustment allowed: {})", got.min, got.max, t.allow_adjust));
                            }
                            if t.allow_adjust && (b(got.max) - &r).abs() > *dev {
                                return Err(format!("token {i}: adjusted max {} is outside reference {r} +- {dev}", got.max));
                            }
                            rec.class_if(t.allow_adjust && !p.clamped_max && !p.clamped_min, "adjustable_in_band_unchanged");
                            rec.class_if(p.clamped_max && !p.clamped_min, "clamped_max_only");
                            rec.class_if(p.clamped_min && !p.clamped_max, "clamped_min_only");
                            rec.class_if(p.clamped_min && p.clamped_max, "clamped_both");
                            rec.class_if((p.clamped_max && (&r + dev) % &step != zero()) || (p.clamped_min && (&r - dev) % &step != zero()), "clamp_rounded_inwards");
                            rec.class_if(!t.allow_adjust && dev.is_positive(), "accepted_in_band_without_adjustment");
                            // observation (see REPORT): without adjustment the validator's band is the deviation rounded
                            // up to one precision step, so a price strictly outside reference +- deviation can pass
                            rec.class_if(!t.allow_adjust && dev.is_positive() && ((b(got.max) - &r).abs() > *dev || (b(got.min) - &r).abs() > *dev), "accepted_outside_strict_band_within_one_step");
                        }
                        rec.class_if(t.ts_kind == 1 && t.adjustment != 0, "accepted_exactly_at_max_age_with_adjustment");
                        rec.class_if(t.ts_kind == 1, "accepted_exactly_at_max_age");
                        rec.class_if(t.ts_kind == 3, "accepted_exactly_at_future_limit");
                        rec.class_if(t.ts_kind == 5, "accepted_exactly_one_heartbeat_old");
                        rec.class_if(t.adjustment != 0, "accepted_with_timestamp_adjustment");
                    }
                }
            }
            rec.class("accepted");
            rec.class_if(expected.len() > 1, "accepted_several_tokens");
            rec.class_if(tokens.len() > expected.len(), "accepted_with_duplicates");
            rec.nontrivial_if(expected.len() > 1 || adjust_focus);

            // ---- a second set without clearing is refused, clearing restores the cleared state, and the
            // same call then produces the same oracle bytes again
            let set_state = fx.w.vm.accounts.clone();
            if fx.w.process(&ix).is_ok() {
                return Err("set_prices_from_price_feed succeeded on an oracle whose prices were already set".into());
            }
            if fx.w.vm.accounts != set_state {
                return Err("a refused second set_prices changed an account".into());
            }
            if fx.w.process(&k.ix_clear_all_prices(k.stranger, k.oracle)).is_ok() || fx.w.process(&k.ix_clear_all_prices(fx.other_oc, k.oracle)).is_ok() {
                return Err("clear_all_prices accepted a signer that is not the oracle authority".into());
            }
            fx.w.process(&k.ix_clear_all_prices(fx.oc, k.oracle)).map_err(|e| format!("clear_all_prices failed: {e:?}"))?;
            check_cleared(&fx.w, &fx.tokens, "after clear_all_prices")?;
            fx.w.process(&ix).map_err(|e| format!("the same prices were refused after clear_all_prices: {e:?}"))?;
            if fx.w.vm.accounts.get(&k.oracle) != Some(&oracle_acct) {
                return Err("setting the same prices after clear_all_prices produced a different oracle account".into());
            }
        }
        (Err((n, reasons)), Ok(())) => return Err(format!("prices accepted although {reasons:?} ({})", describe(*n))),
        (Ok(()), Err(e)) => return Err(format!("well-formed fresh prices were refused: {e:?} ({})", describe(0))),
    }
    svm::set_sysvars(Sysvars::default());
    Ok(())
}

const SET_RULE: &str = "cases = clock, slot, store amounts oracle_max_age / oracle_max_timestamp_range / oracle_max_future_timestamp_excess (insert_amount), and for each of the four W1 tokens: heartbeat, precision, timestamp adjustment, expected provider (push_to_token_map[_synthetic] update), max deviation factor (set_feed_config_v2), AllowPriceAdjustment (toggle_token_price_adjustment), enabled flag (toggle_token_config), and a feed state written by the real update_price_feed_with_chainlink (observation timestamp relative to the clock or exactly at / one second past the max-age, future and heartbeat limits, publication slot, bid/price/ask in precision steps plus sub-step fractions, relative to the deviation band edge); the call = set_prices_from_price_feed with 1..4 (rarely 0..6) tokens in any order with duplicates, own / foreign / non-feed accounts, missing account, stranger or non-authority ORACLE_CONTROLLER; oracle = reference predicate in i128/BigInt from the doc comments, both directions: refused => error, all accounts byte-identical, oracle still cleared; accepted => only the oracle account changed, min/max adjusted timestamps, min slot and per-token unit prices equal the model (tokens not listed have no price), 0 < min <= max, within reference +- deviation (exactly when adjusted, rounded up to one precision step otherwise), then a second set without clearing is refused, clear_all_prices (authority only) restores the cleared state and the same call reproduces the same oracle bytes";

pub fn run_c24_instr(ctx: &mut Ctx) {
    ctx.rule(&format!("instruction path: {SET_RULE}; non-trivial = a refusal, or >= 2 distinct tokens accepted"));
    ctx.assume("svm-lite runtime; custom (Chainlink Data Streams) feeds only: Pyth / Switchboard accounts are not generated; report timestamps are u32, so the i64 extremes of the timestamp arithmetic stay with the hook-level search; `with_prices` clearing after use is exercised by the exchange world");
    let n = ctx.cases(2_500, 125_000);
    ctx.search("set_prices_ix", n, || set_case(false), |c, rec| check_set_prices(c, rec, false));
    for (cl, min) in [
        ("accepted", 567),
        ("accepted_several_tokens", 298),
        ("accepted_with_duplicates", 200),
        ("accepted_with_timestamp_adjustment", 495),
        ("accepted_exactly_at_max_age", 100),
        ("accepted_exactly_at_max_age_with_adjustment", 68),
        ("accepted_exactly_at_future_limit", 97),
        ("accepted_exactly_one_heartbeat_old", 103),
        ("rejected", 741),
        ("rejected_only_too_old", 95),
        ("rejected_one_second_past_max_age", 45),
        ("rejected_too_old_with_adjustment", 77),
        ("rejected_only_future", 65),
        ("rejected_one_second_past_future_limit", 55),
        ("rejected_only_heartbeat", 86),
        ("rejected_one_second_past_heartbeat", 60),
        ("rejected_only_deviation", 12),
        ("rejected_only_provider", 18),
        ("rejected_only_feed_id", 14),
        ("rejected_only_foreign_feed", 25),
        ("rejected_only_not_a_feed_account", 48),
        ("rejected_only_missing_feed_account", 16),
        ("rejected_only_unknown_token", 20),
        ("rejected_only_token_disabled", 15),
        ("rejected_only_range", 70),
        ("rejected_only_authority", 50),
        ("rejected_only_zero_min", 10),
    ] {
        ctx.floor(&format!("set_prices_ix:{cl}"), min);
    }
}

pub fn run_c29_instr(ctx: &mut Ctx) {
    ctx.rule(&format!("instruction path, generator concentrated on the price adjustment (AllowPriceAdjustment mostly on, deviation ratio set, bid/ask within +-2 precision steps of the band edge or far outside, fresh timestamps): {SET_RULE}; non-trivial = accepted"));
    ctx.assume("svm-lite runtime; the reference of a custom feed is always the explicit mid price of the report (the mid-reference branch of the adjustment is reachable only through Pyth/Switchboard feeds and stays with the hook-level search)");
    let n = ctx.cases(2_500, 125_000);
    ctx.search("adjust_ix", n, || set_case(true), |c, rec| check_set_prices(c, rec, true));
    for (cl, min) in [
        ("accepted", 775),
        ("clamped_max_only", 250),
        ("clamped_min_only", 215),
        ("clamped_both", 140),
        ("clamp_rounded_inwards", 482),
        ("adjustable_in_band_unchanged", 400),
        ("accepted_in_band_without_adjustment", 120),
        ("rejected_out_of_band_without_adjustment", 110),
    ] {
        ctx.floor(&format!("adjust_ix:{cl}"), min);
    }
}

