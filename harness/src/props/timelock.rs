//! C36 Timelocked instructions run only as approved, after the delay (real instructions in svm-lite).
//!
//! World: gmsol_store `initialize`, roles (TIMELOCK_ADMIN, TIMELOCK_KEEPER, `__TLD_ADMIN`,
//! `__TLD_MARKET_KEEPER`), timelock `initialize_executor` x2, store `transfer_store_authority` to the
//! ADMIN executor wallet, timelock `initialize_config`. Histories of create / approve(s) / revoke /
//! grant / increase_delay / cancel(s) / execute with clock advances are run against a reference
//! state machine written from the doc comments of the timelock program.

use crate::engine::{pick, Ctx, Rec};
use crate::svm::{self, ProbeCall, Svm, Sysvars};
use anchor_lang::solana_program::{
    instruction::{AccountMeta, Instruction},
    program_error::ProgramError,
    pubkey::Pubkey,
    system_program,
};
use anchor_lang::{InstructionData, ToAccountMetas};
use proptest::prelude::*;
use serde::{Deserialize, Serialize};
use std::collections::BTreeSet;

// ---------------------------------------------------------------------------------------------
// case
// ---------------------------------------------------------------------------------------------

#[derive(Debug, Clone, Serialize, Deserialize)]
pub struct AcctSpec {
    /// index into the key pool (see `pool_key`)
    pub key: u8,
    /// listed in the `signers` argument of `create_instruction_buffer`
    pub signer: bool,
    pub writable: bool,
    /// co-signs the creating transaction (only effective for keys that are wallets of real users)
    pub tx_signer: bool,
}

#[derive(Debug, Clone, Serialize, Deserialize)]
pub enum Target {
    /// the harness probe program (records the CPI)
    Probe,
    /// a program id nobody deployed
    Unknown,
    /// the real store `revoke_role(user, __TLD_<role>)` signed by the executor wallet
    StoreRevoke { user: u8, role: u8 },
    /// the real store `grant_role(user, __TLD_<role>)` signed by the executor wallet
    StoreGrant { user: u8, role: u8 },
}

#[derive(Debug, Clone, Serialize, Deserialize)]
pub enum Op {
    /// `foreign_signer`: also list this account (index modulo the number of accounts) in `signers`
    Create { exec: u8, by: u8, target: Target, accounts: Vec<AcctSpec>, data: Vec<u8>, len_skew: i8, extra_remaining: u8, junk_signer_index: bool, foreign_signer: Option<u8> },
    /// `foreign`: pass the ADMIN executor of a second store (same roles granted there) instead
    Approve { buf: u16, by: u8, other_role: bool, foreign: bool },
    ApproveMany { bufs: Vec<u16>, by: u8 },
    Revoke { who: u8, role: u8, bypass_by: Option<u8> },
    Grant { who: u8, role: u8 },
    /// `foreign`: pass the timelock config of a second store together with this store
    IncreaseDelay { delta: u32, by: u8, foreign: bool },
    Cancel { buf: u16, by: u8 },
    CancelMany { bufs: Vec<u16>, by: u8 },
    /// optionally move the clock to `approved_at + delay + at` first (never backwards)
    /// `foreign_config`: pass the timelock config of a second store (delay 0) together with this store
    Execute { buf: u16, by: u8, at: Option<i8>, wrong_executor: bool, prefer_approved: bool, foreign_config: bool },
    Advance { dt: u32 },
}

#[derive(Debug, Clone, Serialize, Deserialize)]
pub struct Case {
    pub delay: u32,
    pub ops: Vec<Op>,
}

const USERS: usize = 7;
// 0 admin (TIMELOCK_ADMIN, TIMELOCK_KEEPER, __TLD_ADMIN), 1 keeper, 2 timelock admin, 3 holder of
// __TLD_ADMIN, 4 holder of __TLD_MARKET_KEEPER, 5 holder of both, 6 stranger (no membership)
const EXEC_ROLES: [&str; 2] = ["ADMIN", "MARKET_KEEPER"];
const TL_ADMIN: &str = "TIMELOCK_ADMIN";
const TL_KEEPER: &str = "TIMELOCK_KEEPER";
const POOL: u8 = 12;
/// `by` value: the first user that currently holds the timelocked role the operation needs
const HOLDER: u8 = 100;
/// `who` value: the approver of the latest approved pending buffer
const APPROVER: u8 = 101;

fn tld(role: usize) -> String {
    format!("__TLD_{}", EXEC_ROLES[role])
}

fn keeper_by() -> impl Strategy<Value = u8> {
    prop_oneof![10 => Just(0u8), 8 => Just(1u8), 1 => Just(2u8), 1 => Just(3u8), 1 => Just(6u8)]
}
fn admin_by() -> impl Strategy<Value = u8> {
    prop_oneof![5 => Just(0u8), 4 => Just(2u8), 1 => Just(1u8), 1 => Just(5u8), 1 => Just(6u8)]
}
fn approver_by() -> impl Strategy<Value = u8> {
    prop_oneof![14 => Just(HOLDER), 1 => Just(0u8), 2 => Just(3u8), 2 => Just(4u8), 2 => Just(5u8), 1 => Just(1u8), 1 => Just(6u8)]
}
fn role_holder() -> impl Strategy<Value = u8> {
    prop_oneof![2 => Just(0u8), 4 => Just(3u8), 4 => Just(4u8), 4 => Just(5u8), 1 => Just(1u8)]
}
fn revoke_target() -> impl Strategy<Value = u8> {
    prop_oneof![6 => Just(APPROVER), 1 => Just(0u8), 2 => Just(3u8), 2 => Just(4u8), 2 => Just(5u8), 1 => Just(1u8)]
}

fn acct_spec() -> impl Strategy<Value = AcctSpec> {
    prop_oneof![
        // the executor wallet, usually as signer
        3 => (prop_oneof![4 => Just(true), 1 => Just(false)], any::<bool>()).prop_map(|(signer, writable)| AcctSpec { key: 0, signer, writable, tx_signer: false }),
        // anything else, never in `signers`
        8 => (1u8..POOL, any::<bool>(), any::<bool>()).prop_map(|(key, writable, tx_signer)| AcctSpec { key, signer: false, writable, tx_signer }),
    ]
}

fn target() -> impl Strategy<Value = Target> {
    prop_oneof![
        12 => Just(Target::Probe),
        1 => Just(Target::Unknown),
        2 => (role_holder(), 0u8..2).prop_map(|(user, role)| Target::StoreRevoke { user, role }),
        1 => (role_holder(), 0u8..2).prop_map(|(user, role)| Target::StoreGrant { user, role }),
    ]
}

fn create_op() -> impl Strategy<Value = Op> {
    (
        0u8..2,
        keeper_by(),
        target(),
        proptest::collection::vec(acct_spec(), 0..=12),
        prop_oneof![3 => proptest::collection::vec(any::<u8>(), 0..=24), 1 => proptest::collection::vec(any::<u8>(), 0..=300)],
        prop_oneof![15 => Just(0i8), 1 => Just(1i8), 1 => Just(-1i8)],
        prop_oneof![6 => Just(0u8), 1 => 1u8..3],
        prop_oneof![5 => Just(false), 1 => Just(true)],
        prop_oneof![9 => Just(None), 1 => any::<u8>().prop_map(Some)],
    )
        .prop_map(|(exec, by, target, accounts, data, len_skew, extra_remaining, junk_signer_index, foreign_signer)| Op::Create { exec, by, target, accounts, data, len_skew, extra_remaining, junk_signer_index, foreign_signer })
}

fn op() -> impl Strategy<Value = Op> {
    let at = prop_oneof![
        2 => Just(None),
        3 => Just(Some(0i8)),
        3 => Just(Some(-1i8)),
        2 => Just(Some(1i8)),
        2 => (-20i8..=-2).prop_map(Some),
        1 => (-20i8..=20).prop_map(Some),
    ];
    prop_oneof![
        4 => create_op(),
        6 => (any::<u16>(), approver_by(), prop_oneof![7 => Just(false), 1 => Just(true)], prop_oneof![15 => Just(false), 1 => Just(true)]).prop_map(|(buf, by, other_role, foreign)| Op::Approve { buf, by, other_role, foreign }),
        2 => (proptest::collection::vec(any::<u16>(), 0..4), approver_by()).prop_map(|(bufs, by)| Op::ApproveMany { bufs, by }),
        3 => (revoke_target(), 0u8..2, prop_oneof![2 => Just(None), 1 => approver_by().prop_map(Some)]).prop_map(|(who, role, bypass_by)| Op::Revoke { who, role, bypass_by }),
        2 => (revoke_target(), 0u8..2).prop_map(|(who, role)| Op::Grant { who, role }),
        2 => (prop_oneof![1 => Just(0u32), 6 => 1u32..=5, 3 => 1u32..=4000, 1 => (u32::MAX - 5000)..=u32::MAX], admin_by(), prop_oneof![7 => Just(false), 1 => Just(true)]).prop_map(|(delta, by, foreign)| Op::IncreaseDelay { delta, by, foreign }),
        1 => (any::<u16>(), admin_by()).prop_map(|(buf, by)| Op::Cancel { buf, by }),
        2 => (proptest::collection::vec(any::<u16>(), 0..4), admin_by()).prop_map(|(bufs, by)| Op::CancelMany { bufs, by }),
        12 => (any::<u16>(), keeper_by(), at, prop_oneof![12 => Just(false), 1 => Just(true)], prop_oneof![3 => Just(true), 1 => Just(false)], prop_oneof![9 => Just(false), 1 => Just(true)]).prop_map(|(buf, by, at, wrong_executor, prefer_approved, foreign_config)| Op::Execute { buf, by, at, wrong_executor, prefer_approved, foreign_config }),
        2 => prop_oneof![3 => 0u32..=3, 2 => 0u32..=600, 1 => 0u32..=100_000].prop_map(|dt| Op::Advance { dt }),
    ]
}

fn case() -> impl Strategy<Value = Case> {
    (
        prop_oneof![1 => Just(0u32), 2 => 0u32..=3, 4 => 1u32..=3600, 1 => 0u32..=1_000_000],
        create_op(),
        proptest::collection::vec(op(), 4..22),
    )
        .prop_map(|(delay, first, mut ops)| {
            ops.insert(0, first);
            Case { delay, ops }
        })
}

// ---------------------------------------------------------------------------------------------
// world
// ---------------------------------------------------------------------------------------------

fn user(i: usize) -> Pubkey {
    svm::key_of(&format!("c36-user-{i}"))
}

struct World {
    vm: Svm,
    store: Pubkey,
    config: Pubkey,
    executors: [Pubkey; 2],
    wallets: [Pubkey; 2],
    /// timelock config (delay 0) and ADMIN executor of a second store in which user 0 holds the same roles
    foreign_config: Pubkey,
    foreign_executor: Pubkey,
}

fn store_ix(accounts: Vec<AccountMeta>, data: Vec<u8>) -> Instruction {
    Instruction { program_id: gmsol_store::ID, accounts, data }
}
fn tl_ix(accounts: Vec<AccountMeta>, data: Vec<u8>) -> Instruction {
    Instruction { program_id: gmsol_timelock::ID, accounts, data }
}

fn executor_pda(store: &Pubkey, role: &str) -> Result<Pubkey, String> {
    let name = gmsol_utils::fixed_str::fixed_str_to_bytes::<{ gmsol_store::states::MAX_ROLE_NAME_LEN }>(role).map_err(|e| format!("role name: {e:?}"))?;
    Ok(Pubkey::find_program_address(&[b"timelock_executor", store.as_ref(), &name], &gmsol_timelock::ID).0)
}

fn setup(delay: u32, roles: &mut BTreeSet<(usize, String)>) -> Result<World, String> {
    let mut vm = Svm::new();
    for i in 0..USERS {
        vm.fund(user(i), 1_000_000_000_000);
    }
    let admin = user(0);
    let (store, _) = Pubkey::find_program_address(&[b"data_store", &gmsol_utils::to_seed("")], &gmsol_store::ID);
    vm.process(&store_ix(
        gmsol_store::accounts::Initialize { payer: admin, authority: None, receiver: None, holding: None, store, system_program: system_program::ID }.to_account_metas(None),
        gmsol_store::instruction::Initialize { key: String::new() }.data(),
    ))
    .map_err(|e| format!("setup: store initialize failed: {e:?}"))?;
    let all_roles = [TL_ADMIN.to_string(), TL_KEEPER.to_string(), tld(0), tld(1)];
    for r in &all_roles {
        vm.process(&store_ix(gmsol_store::accounts::EnableRole { authority: admin, store }.to_account_metas(None), gmsol_store::instruction::EnableRole { role: r.clone() }.data()))
            .map_err(|e| format!("setup: enable_role {r} failed: {e:?}"))?;
    }
    let grants: Vec<(usize, String)> = vec![
        (0, TL_ADMIN.into()),
        (0, TL_KEEPER.into()),
        (0, tld(0)),
        (1, TL_KEEPER.into()),
        (2, TL_ADMIN.into()),
        (3, tld(0)),
        (4, tld(1)),
        (5, tld(0)),
        (5, tld(1)),
    ];
    for (u, r) in grants {
        vm.process(&store_ix(gmsol_store::accounts::GrantRole { authority: admin, store }.to_account_metas(None), gmsol_store::instruction::GrantRole { user: user(u), role: r.clone() }.data()))
            .map_err(|e| format!("setup: grant_role {r} to user {u} failed: {e:?}"))?;
        roles.insert((u, r));
    }
    let mut executors = [Pubkey::default(); 2];
    let mut wallets = [Pubkey::default(); 2];
    for (i, role) in EXEC_ROLES.iter().enumerate() {
        let executor = executor_pda(&store, role)?;
        let (wallet, _) = Pubkey::find_program_address(&[b"wallet", executor.as_ref()], &gmsol_timelock::ID);
        vm.process(&tl_ix(
            gmsol_timelock::accounts::InitializeExecutor { payer: user(6), store, executor, wallet, system_program: system_program::ID }.to_account_metas(None),
            gmsol_timelock::instruction::InitializeExecutor { role: role.to_string() }.data(),
        ))
        .map_err(|e| format!("setup: initialize_executor {role} failed: {e:?}"))?;
        executors[i] = executor;
        wallets[i] = wallet;
    }
    vm.process(&store_ix(
        gmsol_store::accounts::TransferStoreAuthority { authority: admin, store, next_authority: wallets[0] }.to_account_metas(None),
        gmsol_store::instruction::TransferStoreAuthority {}.data(),
    ))
    .map_err(|e| format!("setup: transfer_store_authority failed: {e:?}"))?;
    let (config, _) = Pubkey::find_program_address(&[b"timelock_config", store.as_ref()], &gmsol_timelock::ID);
    vm.process(&tl_ix(
        gmsol_timelock::accounts::InitializeConfig { authority: admin, store, timelock_config: config, executor: executors[0], wallet: wallets[0], store_program: gmsol_store::ID, system_program: system_program::ID }.to_account_metas(None),
        gmsol_timelock::instruction::InitializeConfig { delay }.data(),
    ))
    .map_err(|e| format!("setup: timelock initialize_config failed: {e:?}"))?;
    // a second store with its own ADMIN executor and a timelock config with delay 0
    let (store2, _) = Pubkey::find_program_address(&[b"data_store", &gmsol_utils::to_seed("other")], &gmsol_store::ID);
    vm.process(&store_ix(
        gmsol_store::accounts::Initialize { payer: admin, authority: None, receiver: None, holding: None, store: store2, system_program: system_program::ID }.to_account_metas(None),
        gmsol_store::instruction::Initialize { key: "other".to_string() }.data(),
    ))
    .map_err(|e| format!("setup: second store initialize failed: {e:?}"))?;
    for r in &all_roles {
        vm.process(&store_ix(gmsol_store::accounts::EnableRole { authority: admin, store: store2 }.to_account_metas(None), gmsol_store::instruction::EnableRole { role: r.clone() }.data()))
            .map_err(|e| format!("setup: second store enable_role {r} failed: {e:?}"))?;
        // every user of the world holds every role in the second store: only the store binding of the
        // accounts can stop a mixed call
        for u in 0..USERS {
            vm.process(&store_ix(gmsol_store::accounts::GrantRole { authority: admin, store: store2 }.to_account_metas(None), gmsol_store::instruction::GrantRole { user: user(u), role: r.clone() }.data()))
                .map_err(|e| format!("setup: second store grant_role {r} failed: {e:?}"))?;
        }
    }
    let foreign_executor = executor_pda(&store2, EXEC_ROLES[0])?;
    let (wallet2, _) = Pubkey::find_program_address(&[b"wallet", foreign_executor.as_ref()], &gmsol_timelock::ID);
    vm.process(&tl_ix(
        gmsol_timelock::accounts::InitializeExecutor { payer: user(6), store: store2, executor: foreign_executor, wallet: wallet2, system_program: system_program::ID }.to_account_metas(None),
        gmsol_timelock::instruction::InitializeExecutor { role: EXEC_ROLES[0].to_string() }.data(),
    ))
    .map_err(|e| format!("setup: second store initialize_executor failed: {e:?}"))?;
    vm.process(&store_ix(
        gmsol_store::accounts::TransferStoreAuthority { authority: admin, store: store2, next_authority: wallet2 }.to_account_metas(None),
        gmsol_store::instruction::TransferStoreAuthority {}.data(),
    ))
    .map_err(|e| format!("setup: second store transfer_store_authority failed: {e:?}"))?;
    let (foreign_config, _) = Pubkey::find_program_address(&[b"timelock_config", store2.as_ref()], &gmsol_timelock::ID);
    vm.process(&tl_ix(
        gmsol_timelock::accounts::InitializeConfig { authority: admin, store: store2, timelock_config: foreign_config, executor: foreign_executor, wallet: wallet2, store_program: gmsol_store::ID, system_program: system_program::ID }
            .to_account_metas(None),
        gmsol_timelock::instruction::InitializeConfig { delay: 0 }.data(),
    ))
    .map_err(|e| format!("setup: second store initialize_config failed: {e:?}"))?;
    Ok(World { vm, store, config, executors, wallets, foreign_config, foreign_executor })
}

// ---------------------------------------------------------------------------------------------
// independent decoding of the accounts (layout from the struct definitions)
// ---------------------------------------------------------------------------------------------

const HEADER: usize = 224;

#[derive(Debug, Clone, PartialEq, Eq)]
struct Decoded {
    approved: bool,
    approved_at: i64,
    executor: Pubkey,
    program: Pubkey,
    rent_receiver: Pubkey,
    approver: Pubkey,
    metas: Vec<(Pubkey, bool, bool)>,
    data: Vec<u8>,
}

fn key_at(d: &[u8], o: usize) -> Pubkey {
    Pubkey::new_from_array(d[o..o + 32].try_into().unwrap())
}

fn decode_buffer(acct: &[u8]) -> Result<Decoded, String> {
    if acct.len() < 8 + HEADER {
        return Err(format!("buffer account has {} bytes", acct.len()));
    }
    let h = &acct[8..];
    let n = u16::from_le_bytes([h[80], h[81]]) as usize;
    let dl = u16::from_le_bytes([h[82], h[83]]) as usize;
    if acct.len() != 8 + HEADER + dl + 33 * n {
        return Err(format!("buffer account has {} bytes, header says {n} accounts and {dl} data bytes", acct.len()));
    }
    let data = h[HEADER..HEADER + dl].to_vec();
    let mut metas = vec![];
    for i in 0..n {
        let o = HEADER + dl + 33 * i;
        let f = h[o];
        if f & !3 != 0 {
            return Err(format!("account {i} has unknown flag bits {f:#x}"));
        }
        metas.push((key_at(h, o + 1), f & 1 != 0, f & 2 != 0));
    }
    if h[1] & !1 != 0 {
        return Err(format!("unknown header flag bits {:#x}", h[1]));
    }
    Ok(Decoded {
        approved: h[1] & 1 != 0,
        approved_at: i64::from_le_bytes(h[8..16].try_into().unwrap()),
        executor: key_at(h, 16),
        program: key_at(h, 48),
        rent_receiver: key_at(h, 96),
        approver: key_at(h, 128),
        metas,
        data,
    })
}

fn config_delay(vm: &Svm, config: &Pubkey) -> Result<u32, String> {
    let d = vm.data(config);
    if d.len() < 8 + 12 {
        return Err("timelock config account missing".into());
    }
    Ok(u32::from_le_bytes(d[16..20].try_into().unwrap()))
}

// ---------------------------------------------------------------------------------------------
// reference model
// ---------------------------------------------------------------------------------------------

#[derive(Debug, Clone)]
struct MBuf {
    key: Pubkey,
    exec: usize,
    creator: usize,
    program: Pubkey,
    metas: Vec<(Pubkey, bool, bool)>,
    data: Vec<u8>,
    target: Target,
    approved: Option<(usize, i64)>,
    alive: bool,
    /// the approver lost the role at some point after the approval
    revoked_since_approval: bool,
    /// delay in force when it was approved
    delay_at_approval: u32,
}

struct Model {
    roles: BTreeSet<(usize, String)>,
    delay: u32,
    now: i64,
    bufs: Vec<MBuf>,
}

impl Model {
    fn has(&self, u: usize, role: &str) -> bool {
        self.roles.contains(&(u, role.to_string()))
    }
    fn resolve(&self, by: u8, role: usize) -> usize {
        if by == HOLDER {
            (0..USERS).find(|u| self.has(*u, &tld(role))).unwrap_or(5)
        } else {
            by as usize % USERS
        }
    }
    fn resolve_target(&self, who: u8, role: usize) -> (usize, usize) {
        if who == APPROVER {
            match self.bufs.iter().rev().find(|b| b.alive && b.approved.is_some()) {
                Some(b) => (b.approved.unwrap().0, b.exec),
                None => (3, role),
            }
        } else {
            (who as usize % USERS, role)
        }
    }
    fn note_role_loss(&mut self) {
        let roles = self.roles.clone();
        for b in self.bufs.iter_mut() {
            if let (true, Some((a, _))) = (b.alive, b.approved) {
                if !roles.contains(&(a, tld(b.exec))) {
                    b.revoked_since_approval = true;
                }
            }
        }
    }
}

fn err_ok(e: &ProgramError) -> Result<(), String> {
    if svm::is_panic(e) {
        return Err("the program panicked".into());
    }
    Ok(())
}

/// Flags as the runtime presents them: one account, one set of privileges per transaction.
fn normalise(metas: &mut [AccountMeta]) {
    let snapshot: Vec<AccountMeta> = metas.to_vec();
    for m in metas.iter_mut() {
        m.is_writable = snapshot.iter().any(|x| x.pubkey == m.pubkey && x.is_writable);
        m.is_signer = snapshot.iter().any(|x| x.pubkey == m.pubkey && x.is_signer);
    }
}

/// What the callee sees for a list of metas (duplicates share one account).
fn callee_view(metas: &[(Pubkey, bool, bool)]) -> Vec<(Pubkey, bool, bool)> {
    metas.iter().map(|(k, _, _)| (*k, metas.iter().any(|x| x.0 == *k && x.1), metas.iter().any(|x| x.0 == *k && x.2))).collect()
}

fn check(c: &Case, rec: &mut Rec) -> Result<(), String> {
    let r = check_inner(c, rec);
    svm::set_sysvars(Sysvars::default());
    svm::take_probe_calls();
    r
}

fn check_inner(c: &Case, rec: &mut Rec) -> Result<(), String> {
    let t0 = 1_700_000_000i64;
    let mut m = Model { roles: BTreeSet::new(), delay: c.delay, now: t0, bufs: vec![] };
    let mut sys = Sysvars { unix_timestamp: t0, ..Default::default() };
    let mut w = setup(c.delay, &mut m.roles)?;
    svm::set_sysvars(sys);
    svm::take_probe_calls();
    let store = w.store;
    let unknown_program = svm::key_of("c36-unknown-program");

    for (step, op) in c.ops.iter().enumerate() {
        let before = w.vm.accounts.clone();
        let prev_delay = m.delay;
        // (expected outcome, actual outcome, description)
        let (expect_ok, got, what): (bool, Result<(), ProgramError>, String);
        match op {
            Op::Create { exec, by, target, accounts, data, len_skew, extra_remaining, junk_signer_index, foreign_signer } => {
                let exec = *exec as usize % 2;
                let by = *by as usize % USERS;
                let authority = user(by);
                let pool_key = |k: u8| -> Pubkey {
                    match k {
                        0 => w.wallets[exec],
                        1 => w.wallets[1 - exec],
                        2 => authority,
                        3 => store,
                        10 => user(0),
                        11 => svm::probe_program_id(),
                        k => svm::key_of(&format!("c36-acct-{k}")),
                    }
                };
                let (program, specs, ix_data): (Pubkey, Vec<(Pubkey, bool, bool, bool)>, Vec<u8>) = match target {
                    Target::Probe => (svm::probe_program_id(), accounts.iter().map(|a| (pool_key(a.key), a.signer, a.writable, a.tx_signer && (a.key == 2 || a.key == 10))).collect(), data.clone()),
                    Target::Unknown => (unknown_program, accounts.iter().map(|a| (pool_key(a.key), a.signer, a.writable, a.tx_signer && (a.key == 2 || a.key == 10))).collect(), data.clone()),
                    Target::StoreRevoke { user: u, role } => (
                        gmsol_store::ID,
                        vec![(w.wallets[exec], true, false, false), (store, false, true, false)],
                        gmsol_store::instruction::RevokeRole { user: user(*u as usize % USERS), role: tld(*role as usize % 2) }.data(),
                    ),
                    Target::StoreGrant { user: u, role } => (
                        gmsol_store::ID,
                        vec![(w.wallets[exec], true, false, false), (store, false, true, false)],
                        gmsol_store::instruction::GrantRole { user: user(*u as usize % USERS), role: tld(*role as usize % 2) }.data(),
                    ),
                };
                let mut specs = specs;
                let n = specs.len();
                if let (Some(f), Target::Probe | Target::Unknown, true) = (foreign_signer, target, n > 0) {
                    specs[*f as usize % n].1 = true;
                }
                let buffer = svm::key_of(&format!("c36-buffer-{}", m.bufs.len()));
                let mut metas = gmsol_timelock::accounts::CreateInstructionBuffer {
                    authority,
                    store,
                    executor: w.executors[exec],
                    instruction_buffer: buffer,
                    instruction_program: program,
                    store_program: gmsol_store::ID,
                    system_program: system_program::ID,
                }
                .to_account_metas(None);
                let fixed = metas.len();
                for (k, _, wr, txs) in &specs {
                    metas.push(AccountMeta { pubkey: *k, is_signer: *txs, is_writable: *wr });
                }
                for i in 0..*extra_remaining {
                    metas.push(AccountMeta::new_readonly(svm::key_of(&format!("c36-extra-{i}")), false));
                }
                normalise(&mut metas);
                let mut signers: Vec<u16> = specs.iter().enumerate().filter(|(_, s)| s.1).map(|(i, _)| i as u16).collect();
                if *junk_signer_index {
                    signers.push((n + *extra_remaining as usize + 3) as u16);
                }
                let declared_len = (ix_data.len() as i64 + *len_skew as i64).clamp(0, u16::MAX as i64) as u16;
                let ix = tl_ix(metas.clone(), gmsol_timelock::instruction::CreateInstructionBuffer { num_accounts: n as u16, data_len: declared_len, data: ix_data.clone(), signers }.data());
                let bad_signer = specs.iter().any(|s| s.1 && s.0 != w.wallets[exec]);
                let len_ok = declared_len as usize == ix_data.len();
                expect_ok = m.has(by, TL_KEEPER) && !bad_signer && len_ok;
                got = w.vm.process(&ix);
                what = format!("create_instruction_buffer by user {by} ({} accounts, {} data bytes, bad signer {bad_signer}, length ok {len_ok})", n, ix_data.len());
                rec.class_if(m.has(by, TL_KEEPER) && bad_signer, "create_refused_foreign_signer");
                rec.class_if(!m.has(by, TL_KEEPER), "create_by_non_keeper");
                rec.class_if(expect_ok && specs.iter().any(|s| s.3 && !s.1), "create_with_tx_signer_not_listed");
                if got.is_ok() {
                    let stored: Vec<(Pubkey, bool, bool)> = specs.iter().enumerate().map(|(i, s)| (s.0, s.1, metas[fixed + i].is_writable)).collect();
                    m.bufs.push(MBuf { key: buffer, exec, creator: by, program, metas: stored, data: ix_data, target: target.clone(), approved: None, alive: true, revoked_since_approval: false, delay_at_approval: 0 });
                    rec.class("create_ok");
                    rec.class_if(n >= 8, "create_many_accounts");
                }
            }
            Op::Approve { buf, by, other_role, foreign } => {
                if m.bufs.is_empty() {
                    continue;
                }
                let bi = pick(*buf, m.bufs.len());
                let b = m.bufs[bi].clone();
                let role = if *other_role { 1 - b.exec } else { b.exec };
                let by = m.resolve(*by, role);
                let ix = tl_ix(
                    gmsol_timelock::accounts::ApproveInstruction { authority: user(by), store, executor: if *foreign { w.foreign_executor } else { w.executors[role] }, instruction: b.key, store_program: gmsol_store::ID }.to_account_metas(None),
                    gmsol_timelock::instruction::ApproveInstruction { role: EXEC_ROLES[role].to_string() }.data(),
                );
                let holder = m.has(by, &tld(role));
                expect_ok = holder && role == b.exec && b.alive && b.approved.is_none() && !*foreign;
                rec.class_if(holder && role == b.exec && b.alive && b.approved.is_none() && *foreign, "approve_with_foreign_store_executor_refused");
                got = w.vm.process(&ix);
                what = format!("approve_instruction (executor of a second store passed: {foreign}) of buffer {bi} (executor {}, alive {}, approved {:?}) by user {by} with role argument {} (holds it: {holder})", EXEC_ROLES[b.exec], b.alive, b.approved, EXEC_ROLES[role]);
                rec.class_if(!holder && b.alive && b.approved.is_none() && role == b.exec, "approve_by_non_holder");
                rec.class_if(holder && b.alive && b.approved.is_some() && role == b.exec, "approve_twice");
                rec.class_if(holder && b.alive && b.approved.is_none() && role != b.exec, "approve_with_other_executors_role");
                if got.is_ok() {
                    m.bufs[bi].approved = Some((by, m.now));
                    m.bufs[bi].revoked_since_approval = false;
                    m.bufs[bi].delay_at_approval = m.delay;
                    rec.class("approve_ok");
                }
            }
            Op::ApproveMany { bufs, by } => {
                if m.bufs.is_empty() {
                    continue;
                }
                // even first key: choose among pending unapproved buffers of one executor (what a client would list)
                let first_exec = bufs.first().map(|b| m.bufs[pick(*b, m.bufs.len())].exec).unwrap_or(0);
                let pending: Vec<usize> = (0..m.bufs.len()).filter(|i| m.bufs[*i].alive && m.bufs[*i].approved.is_none() && m.bufs[*i].exec == first_exec).collect();
                let idx: Vec<usize> = if bufs.first().map(|b| b % 2 == 0).unwrap_or(false) && !pending.is_empty() {
                    pending.iter().copied().take(bufs.len()).collect()
                } else {
                    bufs.iter().map(|b| pick(*b, m.bufs.len())).collect()
                };
                let role = idx.first().map(|i| m.bufs[*i].exec).unwrap_or(0);
                let by = m.resolve(*by, role);
                let mut metas = gmsol_timelock::accounts::ApproveInstructions { authority: user(by), store, executor: w.executors[role], store_program: gmsol_store::ID }.to_account_metas(None);
                for i in &idx {
                    metas.push(AccountMeta::new(m.bufs[*i].key, false));
                }
                let ix = tl_ix(metas, gmsol_timelock::instruction::ApproveInstructions { role: EXEC_ROLES[role].to_string() }.data());
                let distinct = idx.iter().collect::<BTreeSet<_>>().len() == idx.len();
                let holder = m.has(by, &tld(role));
                expect_ok = holder && distinct && idx.iter().all(|i| m.bufs[*i].alive && m.bufs[*i].approved.is_none() && m.bufs[*i].exec == role);
                got = w.vm.process(&ix);
                what = format!("approve_instructions of buffers {idx:?} by user {by} (holds the role: {holder})");
                if got.is_ok() {
                    for i in &idx {
                        m.bufs[*i].approved = Some((by, m.now));
                        m.bufs[*i].revoked_since_approval = false;
                        m.bufs[*i].delay_at_approval = m.delay;
                    }
                    rec.class_if(idx.len() >= 2, "approve_many_ok");
                }
            }
            Op::Revoke { who, role, bypass_by } => {
                let (who, role) = m.resolve_target(*who, *role as usize % 2);
                let name = tld(role);
                match bypass_by {
                    None => {
                        // the store admin is the ADMIN executor wallet; it signs at top level here
                        let mut metas = gmsol_store::accounts::RevokeRole { authority: w.wallets[0], store }.to_account_metas(None);
                        metas[0].is_signer = true;
                        expect_ok = m.has(who, &name);
                        got = w.vm.process(&store_ix(metas, gmsol_store::instruction::RevokeRole { user: user(who), role: name.clone() }.data()));
                        what = format!("store revoke_role({name}) from user {who}");
                    }
                    Some(by) => {
                        let by = m.resolve(*by, 0);
                        let ix = tl_ix(
                            gmsol_timelock::accounts::RevokeRole { authority: user(by), store, executor: w.executors[0], wallet: w.wallets[0], user: user(who), store_program: gmsol_store::ID }.to_account_metas(None),
                            gmsol_timelock::instruction::RevokeRole { role: name.clone() }.data(),
                        );
                        // __TLD_ADMIN, TIMELOCK_ADMIN and TIMELOCK_KEEPER cannot be revoked through the bypass
                        expect_ok = m.has(by, &tld(0)) && role != 0 && m.has(who, &name);
                        got = w.vm.process(&ix);
                        what = format!("timelock revoke_role({name}) from user {who} by user {by}");
                        rec.class_if(got.is_ok(), "bypass_revoke_ok");
                    }
                }
                if got.is_ok() {
                    m.roles.remove(&(who, name));
                    m.note_role_loss();
                    rec.class("revoke_ok");
                }
            }
            Op::Grant { who, role } => {
                let (who, role) = m.resolve_target(*who, *role as usize % 2);
                let name = tld(role);
                let mut metas = gmsol_store::accounts::GrantRole { authority: w.wallets[0], store }.to_account_metas(None);
                metas[0].is_signer = true;
                expect_ok = !m.has(who, &name);
                got = w.vm.process(&store_ix(metas, gmsol_store::instruction::GrantRole { user: user(who), role: name.clone() }.data()));
                what = format!("store grant_role({name}) to user {who}");
                if got.is_ok() {
                    m.roles.insert((who, name));
                }
            }
            Op::IncreaseDelay { delta, by, foreign } => {
                let by = *by as usize % USERS;
                let ix = tl_ix(
                    gmsol_timelock::accounts::IncreaseDelay { authority: user(by), store, timelock_config: if *foreign { w.foreign_config } else { w.config }, store_program: gmsol_store::ID }.to_account_metas(None),
                    gmsol_timelock::instruction::IncreaseDelay { delta: *delta }.data(),
                );
                let sum = m.delay as u64 + *delta as u64;
                expect_ok = m.has(by, TL_ADMIN) && *delta != 0 && sum <= u32::MAX as u64 && !*foreign;
                rec.class_if(m.has(by, TL_ADMIN) && *delta != 0 && *foreign, "increase_delay_on_foreign_config_refused");
                got = w.vm.process(&ix);
                what = format!("increase_delay({delta}) (config of a second store passed: {foreign}) by user {by} at delay {}", m.delay);
                rec.class_if(m.has(by, TL_ADMIN) && sum > u32::MAX as u64, "delay_overflow_refused");
                if got.is_ok() {
                    m.delay = sum as u32;
                    rec.class("delay_increased");
                }
            }
            Op::Cancel { buf, by } => {
                if m.bufs.is_empty() {
                    continue;
                }
                let bi = pick(*buf, m.bufs.len());
                let by = *by as usize % USERS;
                let b = m.bufs[bi].clone();
                let ix = tl_ix(
                    gmsol_timelock::accounts::CancelInstruction { authority: user(by), store, executor: w.executors[b.exec], rent_receiver: user(b.creator), instruction: b.key, store_program: gmsol_store::ID }.to_account_metas(None),
                    gmsol_timelock::instruction::CancelInstruction {}.data(),
                );
                expect_ok = m.has(by, TL_ADMIN) && b.alive;
                got = w.vm.process(&ix);
                what = format!("cancel_instruction of buffer {bi} (alive {}) by user {by}", b.alive);
                if got.is_ok() {
                    m.bufs[bi].alive = false;
                    rec.class("cancel_ok");
                    rec.class_if(b.approved.is_some(), "cancel_approved");
                }
            }
            Op::CancelMany { bufs, by } => {
                if m.bufs.is_empty() {
                    continue;
                }
                let by = *by as usize % USERS;
                let lead = bufs.first().map(|b| pick(*b, m.bufs.len())).unwrap_or(0);
                let alive: Vec<usize> = (0..m.bufs.len()).filter(|i| m.bufs[*i].alive && m.bufs[*i].exec == m.bufs[lead].exec && m.bufs[*i].creator == m.bufs[lead].creator).collect();
                let idx: Vec<usize> = if bufs.first().map(|b| b % 2 == 0).unwrap_or(false) && !alive.is_empty() {
                    alive.iter().copied().take(bufs.len()).collect()
                } else {
                    bufs.iter().map(|b| pick(*b, m.bufs.len())).collect()
                };
                let (exec, receiver) = idx.first().map(|i| (m.bufs[*i].exec, m.bufs[*i].creator)).unwrap_or((0, 0));
                let mut metas = gmsol_timelock::accounts::CancelInstructions { authority: user(by), store, executor: w.executors[exec], rent_receiver: user(receiver), store_program: gmsol_store::ID }.to_account_metas(None);
                for i in &idx {
                    metas.push(AccountMeta::new(m.bufs[*i].key, false));
                }
                let distinct = idx.iter().collect::<BTreeSet<_>>().len() == idx.len();
                expect_ok = m.has(by, TL_ADMIN) && distinct && idx.iter().all(|i| m.bufs[*i].alive && m.bufs[*i].exec == exec && m.bufs[*i].creator == receiver);
                got = w.vm.process(&tl_ix(metas, gmsol_timelock::instruction::CancelInstructions {}.data()));
                what = format!("cancel_instructions of buffers {idx:?} by user {by}");
                if got.is_ok() {
                    for i in &idx {
                        m.bufs[*i].alive = false;
                    }
                    rec.class_if(idx.len() >= 2, "cancel_many_ok");
                }
            }
            Op::Advance { dt } => {
                m.now += *dt as i64;
                sys.unix_timestamp = m.now;
                svm::set_sysvars(sys);
                continue;
            }
            Op::Execute { buf, by, at, wrong_executor, prefer_approved, foreign_config } => {
                if m.bufs.is_empty() {
                    continue;
                }
                let ready: Vec<usize> = (0..m.bufs.len()).filter(|i| m.bufs[*i].alive && m.bufs[*i].approved.is_some()).collect();
                let bi = if *prefer_approved && !ready.is_empty() { ready[pick(*buf, ready.len())] } else { pick(*buf, m.bufs.len()) };
                let by = *by as usize % USERS;
                let b = m.bufs[bi].clone();
                if let (Some(off), Some((_, approved_at))) = (at, b.approved) {
                    let target_time = approved_at + m.delay as i64 + *off as i64;
                    if target_time > m.now {
                        m.now = target_time;
                        sys.unix_timestamp = m.now;
                        svm::set_sysvars(sys);
                    }
                }
                let exec_passed = if *wrong_executor { 1 - b.exec } else { b.exec };
                let mut metas = gmsol_timelock::accounts::ExecuteInstruction {
                    authority: user(by),
                    store,
                    timelock_config: if *foreign_config { w.foreign_config } else { w.config },
                    executor: w.executors[exec_passed],
                    wallet: w.wallets[exec_passed],
                    rent_receiver: user(b.creator),
                    instruction: b.key,
                    store_program: gmsol_store::ID,
                }
                .to_account_metas(None);
                for (k, _, wr) in &b.metas {
                    metas.push(AccountMeta { pubkey: *k, is_signer: false, is_writable: *wr });
                }
                metas.push(AccountMeta::new_readonly(b.program, false));
                normalise(&mut metas);
                let ix = tl_ix(metas, gmsol_timelock::instruction::ExecuteInstruction {}.data());
                let keeper = m.has(by, TL_KEEPER);
                let holder_now = b.approved.map(|(a, _)| m.has(a, &tld(b.exec))).unwrap_or(false);
                let boundary = b.approved.map(|(_, t)| t + m.delay as i64);
                let due = boundary.map(|t| m.now >= t).unwrap_or(false);
                // a config of another store (delay 0 there) must never stand in for this store's config
                let own_gate = keeper && !*wrong_executor && b.alive && b.approved.is_some() && holder_now;
                rec.class_if(own_gate && *foreign_config && !due, "exec_early_with_foreign_config_refused");
                rec.class_if(own_gate && *foreign_config && due, "exec_due_with_foreign_config_refused");
                let gate = own_gate && due && !*foreign_config;
                // outcome of the buffered instruction itself
                let inner_ok = match &b.target {
                    Target::Probe => true,
                    Target::Unknown => false,
                    Target::StoreRevoke { user: u, role } => b.exec == 0 && m.has(*u as usize % USERS, &tld(*role as usize % 2)),
                    Target::StoreGrant { user: u, role } => b.exec == 0 && !m.has(*u as usize % USERS, &tld(*role as usize % 2)),
                };
                expect_ok = gate && inner_ok;
                svm::take_probe_calls();
                got = w.vm.process(&ix);
                let calls = svm::take_probe_calls();
                what = format!(
                    "execute_instruction of buffer {bi} by user {by} (keeper {keeper}, alive {}, approved {:?}, approver holds role {holder_now}, now {} vs executable at {boundary:?}, delay {}, wrong executor {wrong_executor}, config of a second store passed {foreign_config}, inner instruction would succeed {inner_ok})",
                    b.alive, b.approved, m.now, m.delay
                );
                let honest = keeper && !*wrong_executor && b.alive && !*foreign_config;
                if honest && b.approved.is_some() && inner_ok {
                    let dist = m.now - boundary.unwrap();
                    if holder_now {
                        rec.class_if(dist == -1, "exec_one_second_early");
                        rec.class_if(dist == 0, "exec_exactly_at_boundary");
                        rec.class_if(dist == 1, "exec_one_second_late");
                        rec.class_if(dist < -1, "exec_early");
                        rec.class_if(dist < 0 && m.now >= b.approved.unwrap().1 + b.delay_at_approval as i64, "exec_blocked_by_increased_delay");
                        rec.class_if(dist >= 0 && b.revoked_since_approval, "exec_after_regrant");
                        rec.nontrivial_if(dist.abs() <= 1);
                    }
                    if !holder_now {
                        rec.class("exec_after_approver_lost_role");
                        rec.class_if(due, "exec_due_but_approver_lost_role");
                        rec.nontrivial();
                    }
                }
                rec.class_if(honest && b.approved.is_none(), "exec_unapproved");
                rec.class_if(keeper && !b.alive, "exec_dead_buffer");
                rec.class_if(!keeper && gate_without_keeper(&b, holder_now, due, *wrong_executor) && inner_ok, "exec_by_non_keeper");
                rec.class_if(gate && !inner_ok, "exec_inner_instruction_fails");
                if got.is_ok() {
                    rec.class("exec_ok");
                    // the probe must have received exactly the buffered instruction
                    match &b.target {
                        Target::Probe => {
                            let expected = ProbeCall { program_id: b.program, metas: callee_view(&b.metas), data: b.data.clone() };
                            if calls.len() != 1 || calls[0] != expected {
                                return Err(format!("step {step}: {what}: the target program received {calls:?}, the buffer holds {expected:?}"));
                            }
                            for (k, s, _) in &calls[0].metas {
                                if *s && *k != w.wallets[b.exec] {
                                    return Err(format!("step {step}: {what}: account {k} was passed as signer but is not the executor wallet"));
                                }
                            }
                            rec.class_if(calls[0].metas.iter().any(|x| x.1), "exec_wallet_signed");
                        }
                        Target::StoreRevoke { user: u, role } => {
                            m.roles.remove(&(*u as usize % USERS, tld(*role as usize % 2)));
                            rec.class("exec_store_instruction_ok");
                        }
                        Target::StoreGrant { user: u, role } => {
                            m.roles.insert((*u as usize % USERS, tld(*role as usize % 2)));
                            rec.class("exec_store_instruction_ok");
                        }
                        Target::Unknown => {}
                    }
                    m.bufs[bi].alive = false;
                    m.note_role_loss();
                }
            }
        }

        // outcome
        match &got {
            Ok(()) if !expect_ok => return Err(format!("step {step}: {what}: accepted, the reference model refuses it")),
            Err(e) if expect_ok => return Err(format!("step {step}: {what}: refused with {e:?}, the reference model accepts it")),
            Err(e) => {
                err_ok(e).map_err(|x| format!("step {step}: {what}: {x}"))?;
                if w.vm.accounts != before {
                    return Err(format!("step {step}: {what}: refused with {e:?} but accounts changed"));
                }
                rec.class("refused_op");
            }
            Ok(()) => {}
        }

        // state against the model
        let delay = config_delay(&w.vm, &w.config)?;
        if delay != m.delay {
            return Err(format!("step {step}: {what}: configured delay is {delay}, model says {}", m.delay));
        }
        if delay < prev_delay {
            return Err(format!("step {step}: {what}: delay decreased from {prev_delay} to {delay}"));
        }
        for (i, b) in m.bufs.iter().enumerate() {
            match (b.alive, w.vm.get(&b.key)) {
                (false, None) => {}
                (false, Some(_)) => return Err(format!("step {step}: {what}: buffer {i} was executed or cancelled but its account still exists")),
                (true, None) => return Err(format!("step {step}: {what}: pending buffer {i} disappeared")),
                (true, Some(a)) => {
                    if a.owner != gmsol_timelock::ID {
                        return Err(format!("step {step}: {what}: buffer {i} is owned by {}", a.owner));
                    }
                    let d = decode_buffer(&a.data).map_err(|e| format!("step {step}: {what}: buffer {i}: {e}"))?;
                    let expected = Decoded {
                        approved: b.approved.is_some(),
                        approved_at: b.approved.map(|x| x.1).unwrap_or(0),
                        executor: w.executors[b.exec],
                        program: b.program,
                        rent_receiver: user(b.creator),
                        approver: b.approved.map(|x| user(x.0)).unwrap_or_default(),
                        metas: b.metas.clone(),
                        data: b.data.clone(),
                    };
                    if d != expected {
                        return Err(format!("step {step}: {what}: buffer {i} holds {d:?}, model says {expected:?}"));
                    }
                }
            }
        }
        // roles the model tracks
        let st: gmsol_store::states::Store = svm::read_zero_copy(w.vm.data(&store)).ok_or("store unreadable")?;
        for u in 0..USERS {
            for r in 0..2 {
                let on_chain = st.role().has_role(&user(u), &tld(r)).unwrap_or(false);
                if on_chain != m.has(u, &tld(r)) {
                    return Err(format!("step {step}: {what}: user {u} holds {} on chain: {on_chain}, model: {}", tld(r), m.has(u, &tld(r))));
                }
            }
        }
    }
    Ok(())
}

fn gate_without_keeper(b: &MBuf, holder_now: bool, due: bool, wrong_executor: bool) -> bool {
    !wrong_executor && b.alive && b.approved.is_some() && holder_now && due
}

pub fn run_c36(ctx: &mut Ctx) {
    ctx.rule("cases = initial delay (0, tiny, up to 1e6 s) and 5..22 operations on a world built with the real store / timelock instructions (store initialize, enable/grant roles, initialize_executor ADMIN and MARKET_KEEPER, transfer_store_authority + initialize_config): create_instruction_buffer (target = probe program, an undeployed program, or the real store revoke_role / grant_role signed by the executor wallet; 0..12 accounts from a pool incl. both executor wallets, the creator, the store, co-signing users, duplicates; data <= 300 bytes; `signers` listing the wallet, sometimes a foreign account or an out-of-range index; wrong data_len; extra remaining accounts), approve_instruction(s) by holders / non-holders / holders of the other executor's role, store revoke_role / grant_role of the timelocked roles and the timelock bypass revoke_role, increase_delay (0, small, overflowing), cancel_instruction(s), execute_instruction optionally after moving the clock to approved_at + delay + {-1,0,+1,..} (also with the other executor passed, or with the timelock config of a second store whose delay is 0), approve / increase_delay also with the executor / config of that second store (every user holds every role there, so only the accounts' store binding can refuse the mixed call), plain clock advances. Oracle = reference state machine: every operation is accepted exactly when the model accepts it (execute: caller is keeper, buffer pending, approved, approver holds __TLD_<role> now, now >= approved_at + current delay, inner instruction succeeds); approval once; delay never decreases; executed / cancelled buffers are gone and refuse everything; the probe receives exactly the buffered program id, metas (signer only on the executor wallet, writable as buffered) and data; refused operations leave every account byte-identical; after every step all buffers, the delay and the timelocked role memberships equal the model. Non-trivial = an honest execute attempt within +-1 s of approved_at + delay, or after the approver lost the role");
    ctx.assume("the harness builds gmsol-store with its `multi-store` feature so that the second store can be created by the real initialize instruction; svm-lite is not the Solana runtime (no compute / stack limits); the store authority (the ADMIN executor wallet PDA) signs direct store grant/revoke instructions at top level, in production those go through the timelock itself (also generated: Target::StoreRevoke/StoreGrant) or its bypass revoke_role; role disable/enable and a cluster restart are not generated");
    let n = ctx.cases(3_000, 150_000);
    ctx.search("history", n, case, check);
    for (class, min) in [
        ("exec_ok", 100),
        ("exec_one_second_early", 40),
        ("exec_exactly_at_boundary", 40),
        ("exec_one_second_late", 15),
        ("exec_early", 40),
        ("exec_after_approver_lost_role", 15),
        ("exec_due_but_approver_lost_role", 8),
        ("exec_dead_buffer", 30),
        ("exec_unapproved", 40),
        ("exec_wallet_signed", 30),
        ("approve_ok", 200),
        ("approve_by_non_holder", 40),
        ("approve_twice", 20),
        ("create_refused_foreign_signer", 30),
        ("create_with_tx_signer_not_listed", 40),
        ("delay_increased", 40),
        ("cancel_ok", 20),
        ("revoke_ok", 40),
        ("approve_many_ok", 10),
        ("cancel_many_ok", 6),
        ("exec_store_instruction_ok", 20),
        ("exec_blocked_by_increased_delay", 15),
        ("delay_overflow_refused", 20),
        ("exec_early_with_foreign_config_refused", 15),
        ("exec_due_with_foreign_config_refused", 30),
        ("increase_delay_on_foreign_config_refused", 40),
        ("approve_with_foreign_store_executor_refused", 25),
    ] {
        ctx.floor(&format!("history:{class}"), min);
    }
}
