//! Smoke/timing test of the W1 world (not a property check).
use crate::engine::{out, Ctx};
use crate::world1::World1;
use std::time::Instant;

pub fn run(_ctx: &mut Ctx) {
    crate::svm::keep_logs(true);
    let t = Instant::now();
    match World1::build() {
        Ok(w) => {
            out(&format!("world1 build: {:?}, {} accounts", t.elapsed(), w.vm.accounts.len()));
            let t = Instant::now();
            for _ in 0..20 {
                let _ = World1::build();
            }
            out(&format!("world1 build avg over 20: {:?}", t.elapsed() / 20));
            let t = Instant::now();
            for _ in 0..100 {
                let _ = World1::fresh();
            }
            out(&format!("world1 fresh (cached clone) avg over 100: {:?}", t.elapsed() / 100));
            let s = w.store();
            out(&format!("roles = {}, members = {}", s.role().num_roles(), s.role().num_members()));
            for i in 0..3 {
                let m = w.market(i);
                out(&format!("market {i}: {:?} pure={} enabled={}", m.name(), m.is_pure(), m.is_enabled()));
            }
        }
        Err(e) => {
            out(&format!("world1 build FAILED: {e}"));
            for l in crate::svm::take_logs().iter().rev().take(25).rev() {
                out(&format!("  log: {l}"));
            }
        }
    }
}
