//! C19 Privileged instructions reject callers without the required role (real entrypoints, svm-lite W1).
//!
//! `table()` is the policy table instruction -> required authority, written from the `# Errors`
//! doc comments and `#[access_control]` attributes of programs/*/src/lib.rs. Every entry also knows how
//! to build a well-formed instance of the instruction in the W1 world for a given signer.

use crate::engine::{pick, Ctx, Rec};
use crate::svm::{self, Svm, Sysvars};
use crate::world1::{self, codes, create_mint, create_token_account, rent, store_ix, World1, PID, ROLES};
use anchor_lang::solana_program::{
    instruction::{AccountMeta, Instruction},
    program_error::ProgramError,
    pubkey::Pubkey,
    system_instruction, system_program,
};
use anchor_lang::{InstructionData, ToAccountMetas};
use gmsol_store::accounts as sa;
use gmsol_store::instruction as si;
use gmsol_store::states::{AddressKey, AmountKey, FactorKey, PriceProviderKind, UpdateTokenConfigParams};
use gmsol_store::CoreError;
use gmsol_utils::role::RoleKey;
use proptest::prelude::*;
use serde::{Deserialize, Serialize};
use serde_json::json;
use std::collections::{BTreeMap, BTreeSet};
use strum::IntoEnumIterator;

const MK: &str = RoleKey::MARKET_KEEPER;
const OK_: &str = RoleKey::ORDER_KEEPER;
const CK: &str = RoleKey::CONFIG_KEEPER;
const FK: &str = RoleKey::FEATURE_KEEPER;
const GC: &str = RoleKey::GT_CONTROLLER;
const OC: &str = RoleKey::ORACLE_CONTROLLER;
const PK: &str = RoleKey::PRICE_KEEPER;
const MCK: &str = RoleKey::MARKET_CONFIG_KEEPER;
const MIG: &str = RoleKey::MIGRATION_KEEPER;
const RA: &str = RoleKey::RESTART_ADMIN;

/// Required authority of an instruction.
#[derive(Clone, Debug)]
pub enum Auth {
    /// The store authority (ADMIN).
    Admin,
    /// ADMIN, evaluated after a cluster restart (RESTART_ADMIN holders are admins then).
    AdminAfterRestart,
    /// A named role of the store.
    Role(&'static str),
    /// Any of the named roles.
    AnyOf(&'static [&'static str]),
    /// A specific address tied to the accounts (owner / receiver / next authority); the codes are the
    /// accepted rejection codes.
    Key(Vec<u32>),
    /// No privilege by design.
    Permissionless,
}

#[derive(Clone, Copy, Debug, PartialEq)]
pub enum Expect {
    Ok,
    /// The handler body itself is documented to fail with this code (reached only after account
    /// validation and the access-control check).
    HandlerErr(u32),
}

pub struct Rng(u64);
impl Rng {
    pub fn next(&mut self) -> u64 {
        self.0 = self.0.wrapping_add(0x9e37_79b9_7f4a_7c15);
        let mut z = self.0;
        z = (z ^ (z >> 30)).wrapping_mul(0xbf58_476d_1ce4_e5b9);
        z = (z ^ (z >> 27)).wrapping_mul(0x94d0_49bb_1331_11eb);
        z ^ (z >> 31)
    }
    pub fn below(&mut self, n: usize) -> usize {
        (self.next() % n.max(1) as u64) as usize
    }
    pub fn bool(&mut self) -> bool {
        self.next() & 1 == 1
    }
    pub fn u128(&mut self) -> u128 {
        match self.below(4) {
            0 => 0,
            1 => self.next() as u128,
            2 => (self.next() as u128) * 100_000_000_000_000,
            _ => ((self.next() as u128) << 64) | self.next() as u128,
        }
    }
}

type Build = fn(&mut World1, Pubkey, bool, &mut Rng) -> Result<Instruction, String>;

pub struct Entry {
    pub program: &'static str,
    pub name: &'static str,
    pub auth: Auth,
    pub expect: Expect,
    pub build: Build,
}

#[derive(Clone, Copy, Debug, PartialEq)]
enum Caller {
    /// Fresh funded signer without any role.
    NoRole,
    /// Fresh signer holding exactly this (insufficient) role.
    WrongRole(&'static str),
    /// The store authority itself (not a holder of any role).
    StoreAuthority,
    /// Fresh signer holding the required role / being the required key / having received the store authority.
    Required(usize),
}

fn callers(auth: &Auth) -> Vec<(Caller, bool)> {
    let mut v = vec![(Caller::NoRole, false)];
    match auth {
        Auth::Admin => {
            v.extend(ROLES.iter().map(|r| (Caller::WrongRole(r), false)));
            v.push((Caller::StoreAuthority, true));
            v.push((Caller::Required(0), true));
        }
        Auth::AdminAfterRestart => {
            v.extend(ROLES.iter().filter(|r| **r != RA).map(|r| (Caller::WrongRole(r), false)));
            v.push((Caller::StoreAuthority, true));
            v.push((Caller::Required(0), true));
        }
        Auth::Role(role) => {
            v.extend(ROLES.iter().filter(|r| *r != role).map(|r| (Caller::WrongRole(r), false)));
            v.push((Caller::StoreAuthority, false));
            v.push((Caller::Required(0), true));
        }
        Auth::AnyOf(roles) => {
            v.extend(ROLES.iter().filter(|r| !roles.contains(r)).map(|r| (Caller::WrongRole(r), false)));
            v.push((Caller::StoreAuthority, false));
            v.extend((0..roles.len()).map(|i| (Caller::Required(i), true)));
        }
        Auth::Key(_) => {
            v.push((Caller::WrongRole(MK), false));
            v.push((Caller::StoreAuthority, false));
            v.push((Caller::Required(0), true));
        }
        Auth::Permissionless => {
            v[0].1 = true;
            // also a signer that is a member of the role table
            v.push((Caller::WrongRole(MK), true));
        }
    }
    v
}

fn other(label: &str) -> Pubkey {
    svm::key_of(&format!("c19-{label}"))
}

fn run_as(w: &mut World1, what: &str, ix: Instruction) -> Result<(), String> {
    w.process(&ix).map_err(|e| format!("c19 prep: {what} failed: {e:?}"))
}

fn fund(w: &mut World1, key: Pubkey) -> Pubkey {
    if w.vm.get(&key).is_none() {
        w.vm.fund(key, 1_000_000_000_000);
    }
    key
}

fn ensure_gt(w: &mut World1) -> Result<(), String> {
    if !w.store().gt().is_initialized() {
        let mk = w.k.role_key(MK);
        run_as(w, "initialize_gt", w.k.ix_initialize_gt(mk, 7, 100 * world1::USD / 10_000_000, 101 * world1::USD / 100, 1_000_000_000, vec![10, 100, 1000]))?;
    }
    Ok(())
}

fn new_buffer(w: &mut World1, owner: Pubkey, key: &str) -> Result<Pubkey, String> {
    let buffer = other("buffer");
    fund(w, owner);
    run_as(w, "initialize_market_config_buffer", w.k.ix_initialize_market_config_buffer(owner, buffer, 1000))?;
    run_as(w, "push_to_market_config_buffer", w.k.ix_push_to_market_config_buffer(owner, buffer, vec![(key.to_string(), 42)]))?;
    Ok(buffer)
}

fn new_oracle(w: &mut World1, authority: Pubkey) -> Result<Pubkey, String> {
    let oracle = other("oracle");
    let space = 8 + std::mem::size_of::<gmsol_store::states::Oracle>();
    run_as(w, "create oracle", system_instruction::create_account(&w.k.admin, &oracle, rent(space), space as u64, &PID))?;
    run_as(w, "initialize_oracle", w.k.ix_initialize_oracle(w.k.admin, authority, oracle))?;
    Ok(oracle)
}

fn a_key(rng: &mut Rng) -> String {
    let keys: Vec<_> = gmsol_store::states::market::config::MarketConfigKey::iter().collect();
    keys[rng.below(keys.len())].to_string()
}

fn a_role(rng: &mut Rng) -> &'static str {
    ROLES[rng.below(ROLES.len())]
}

fn token_params(feed: Pubkey) -> UpdateTokenConfigParams {
    UpdateTokenConfigParams::default()
        .update_price_feed(&PriceProviderKind::ChainlinkDataStreams, feed, None)
        .expect("feed index")
        .with_expected_provider(PriceProviderKind::ChainlinkDataStreams)
}

fn owner_or_other(w: &mut World1, signer: Pubkey, authorised: bool) -> Pubkey {
    if authorised {
        signer
    } else {
        fund(w, other("someone-else"))
    }
}

/// A user (prepared) owned by `owner`, optionally with GT balance.
fn prepared(w: &mut World1, owner: Pubkey) -> Result<(), String> {
    fund(w, owner);
    run_as(w, "prepare_user", w.k.ix_prepare_user(owner))
}

fn gt_vault_now(w: &World1) -> (i64, u32) {
    let window = w.store().gt().exchange_time_window();
    (svm::sysvars().unix_timestamp / window as i64, window)
}

fn advance(secs: i64) {
    let mut s = svm::sysvars();
    s.unix_timestamp += secs;
    s.slot += (secs as u64) * 2;
    svm::set_sysvars(s);
}

fn core(e: CoreError) -> u32 {
    u32::from(e)
}

fn owner_codes() -> Vec<u32> {
    vec![codes::CONSTRAINT_HAS_ONE, codes::CONSTRAINT_SEEDS, core(CoreError::PermissionDenied), core(CoreError::OwnerMismatched)]
}

macro_rules! e {
    ($name:literal, $auth:expr, $build:expr) => {
        Entry { program: "store", name: $name, auth: $auth, expect: Expect::Ok, build: $build }
    };
    ($name:literal, $auth:expr, $expect:expr, $build:expr) => {
        Entry { program: "store", name: $name, auth: $auth, expect: $expect, build: $build }
    };
}

fn read_token_map_entry(name: &'static str, build: Build) -> Entry {
    Entry { program: "store", name, auth: Auth::Permissionless, expect: Expect::Ok, build }
}

/// The policy table (store program part).
pub fn table() -> Vec<Entry> {
    use Auth::*;
    let mut t: Vec<Entry> = vec![
        // ---------------------------------------------------------------- store
        e!("initialize", Permissionless, |w, s, _a, _r| {
            // "payer must be a signer", nothing else: a brand-new cluster without a store
            let mut vm = Svm::new();
            vm.fund(s, 1_000_000_000_000);
            w.vm = vm;
            Ok(w.k.ix_initialize(s))
        }),
        e!("update_last_restarted_slot", AdminAfterRestart, |w, s, _a, _r| {
            // "must be a signer and the current admin of the store" (after a restart, RESTART_ADMIN holders are admins)
            svm::set_sysvars(Sysvars { last_restart_slot: 777, ..svm::sysvars() });
            Ok(w.k.ix_update_last_restarted_slot(s))
        }),
        e!("transfer_store_authority", Admin, |w, s, _a, _r| Ok(w.k.ix_transfer_store_authority(s, other("next-authority")))),
        e!("accept_store_authority", Key(vec![codes::CONSTRAINT_HAS_ONE]), |w, s, a, _r| {
            // "must be a signer and the current next_authority of the store"
            let next = owner_or_other(w, s, a);
            run_as(w, "transfer_store_authority", w.k.ix_transfer_store_authority(w.k.admin, next))?;
            Ok(w.k.ix_accept_store_authority(s))
        }),
        e!("transfer_receiver", Key(vec![core(CoreError::PermissionDenied)]), |w, s, a, _r| {
            // "must be a signer and the current receiver of the given store"
            if a {
                run_as(w, "transfer_receiver", w.k.ix_transfer_receiver(w.k.receiver, s))?;
                run_as(w, "accept_receiver", w.k.ix_accept_receiver(s))?;
            }
            Ok(w.k.ix_transfer_receiver(s, other("next-receiver")))
        }),
        e!("accept_receiver", Key(vec![core(CoreError::PermissionDenied)]), |w, s, a, _r| {
            let next = owner_or_other(w, s, a);
            run_as(w, "transfer_receiver", w.k.ix_transfer_receiver(w.k.receiver, next))?;
            Ok(w.k.ix_accept_receiver(s))
        }),
        e!("set_token_map", Role(MK), |w, s, _a, _r| {
            let tm = other("token-map-2");
            run_as(w, "initialize_token_map", w.k.ix_initialize_token_map(w.k.admin, tm))?;
            Ok(w.k.ix_set_token_map(s, tm))
        }),
        // ---------------------------------------------------------------- roles
        e!("check_admin", Permissionless, |w, s, _a, _r| Ok(w.k.ix_check_admin(s))),
        e!("check_role", Permissionless, |w, s, _a, r| Ok(w.k.ix_check_role(s, a_role(r)))),
        e!("has_admin", Permissionless, |w, s, _a, _r| Ok(w.k.ix_has_admin(s))),
        e!("has_role", Permissionless, |w, s, _a, r| Ok(w.k.ix_has_role(s, a_role(r)))),
        e!("enable_role", Admin, |w, s, _a, r| Ok(w.k.ix_enable_role(s, ["C19_NEW_ROLE", "X", "TIMELOCK_ADMIN"][r.below(3)]))),
        e!("disable_role", Admin, |w, s, _a, r| Ok(w.k.ix_disable_role(s, a_role(r)))),
        e!("grant_role", Admin, |w, s, _a, r| Ok(w.k.ix_grant_role(s, other("grantee"), a_role(r)))),
        e!("revoke_role", Admin, |w, s, _a, r| {
            let role = a_role(r);
            Ok(w.k.ix_revoke_role(s, w.k.role_key(role), role))
        }),
        // ---------------------------------------------------------------- config
        e!("insert_amount", Role(CK), |w, s, _a, r| {
            // "Changes to claimable_time_window are prohibited"
            let keys: Vec<_> = AmountKey::iter().filter(|k| !matches!(k, AmountKey::ClaimableTimeWindow)).collect();
            Ok(w.k.ix_insert_amount(s, &keys[r.below(keys.len())].to_string(), r.next()))
        }),
        e!("insert_factor", Role(CK), |w, s, _a, r| {
            let keys: Vec<_> = FactorKey::iter().collect();
            Ok(w.k.ix_insert_factor(s, &keys[r.below(keys.len())].to_string(), r.u128()))
        }),
        e!("insert_address", Role(CK), |w, s, _a, r| {
            let keys: Vec<_> = AddressKey::iter().collect();
            Ok(w.k.ix_insert_address(s, &keys[r.below(keys.len())].to_string(), other("address")))
        }),
        e!("insert_order_fee_discount_for_referred_user", Role(MK), |w, s, _a, r| Ok(w.k.ix_insert_order_fee_discount_for_referred_user(s, r.u128()))),
        e!("toggle_feature", Role(FK), |w, s, _a, r| {
            let d: Vec<_> = gmsol_store::states::feature::DomainDisabledFlag::iter().collect();
            let a: Vec<_> = gmsol_store::states::feature::ActionDisabledFlag::iter().collect();
            Ok(w.k.ix_toggle_feature(s, &d[r.below(d.len())].to_string(), &a[r.below(a.len())].to_string(), r.bool()))
        }),
        // ---------------------------------------------------------------- token map
        e!("initialize_token_map", Permissionless, |w, s, _a, _r| Ok(w.k.ix_initialize_token_map(s, other("token-map-new")))),
        e!("push_to_token_map", Role(MK), |w, s, _a, r| {
            if r.bool() {
                let mint = other("new-mint");
                create_mint(&mut w.vm, w.k.admin, mint, w.k.admin, 5).map_err(|e| format!("c19 prep: mint {e:?}"))?;
                Ok(w.k.ix_push_to_token_map(s, w.k.token_map, mint, "NEW", token_params(other("feed")), r.bool(), true))
            } else {
                Ok(w.k.ix_push_to_token_map(s, w.k.token_map, w.k.short_mint, "SHORT2", token_params(other("feed")), true, false))
            }
        }),
        e!("push_to_token_map_synthetic", Role(MK), |w, s, _a, r| {
            if r.bool() {
                Ok(w.k.ix_push_to_token_map_synthetic(s, w.k.token_map, other("synthetic"), 10, "SYN", token_params(other("feed")), r.bool(), true))
            } else {
                Ok(w.k.ix_push_to_token_map_synthetic(s, w.k.token_map, w.k.index_a, world1::INDEX_DECIMALS, "IDXA2", token_params(other("feed")), true, false))
            }
        }),
        e!("toggle_token_config", Role(MK), |w, s, _a, r| Ok(w.k.ix_toggle_token_config(s, w.k.feeds[r.below(4)].0, r.bool()))),
        e!("toggle_token_price_adjustment", Role(MK), |w, s, _a, r| Ok(w.k.ix_toggle_token_price_adjustment(s, w.k.feeds[r.below(4)].0, r.bool()))),
        e!("set_feed_config_market_status_flag", Role(MK), |w, s, _a, r| Ok(w.k.ix_set_feed_config_market_status_flag(s, w.k.feeds[r.below(4)].0, 0, r.below(5) as u8, r.bool()))),
        e!("set_expected_provider", Role(MK), |w, s, _a, r| Ok(w.k.ix_set_expected_provider(s, w.k.feeds[r.below(4)].0, [1u8, 3][r.below(2)]))),
        e!("set_feed_config_v2", Role(MK), |w, s, _a, r| {
            let dev = if r.bool() { Some(r.below(1000) as u128 * world1::USD / 1000) } else { None };
            Ok(w.k.ix_set_feed_config_v2(s, w.k.feeds[r.below(4)].0, 0, Some(other("feed-2")), Some(r.below(100) as u32), dev))
        }),
        read_token_map_entry("is_token_config_enabled", |w, _s, _a, r| Ok(store_ix(sa::ReadTokenMap { token_map: w.k.token_map }, si::IsTokenConfigEnabled { token: w.k.feeds[r.below(4)].0 }))),
        read_token_map_entry("token_expected_provider", |w, _s, _a, r| Ok(store_ix(sa::ReadTokenMap { token_map: w.k.token_map }, si::TokenExpectedProvider { token: w.k.feeds[r.below(4)].0 }))),
        read_token_map_entry("token_feed", |w, _s, _a, r| Ok(store_ix(sa::ReadTokenMap { token_map: w.k.token_map }, si::TokenFeed { token: w.k.feeds[r.below(4)].0, provider: 0 }))),
        read_token_map_entry("token_timestamp_adjustment", |w, _s, _a, r| Ok(store_ix(sa::ReadTokenMap { token_map: w.k.token_map }, si::TokenTimestampAdjustment { token: w.k.feeds[r.below(4)].0, provider: 0 }))),
        read_token_map_entry("token_name", |w, _s, _a, r| Ok(store_ix(sa::ReadTokenMap { token_map: w.k.token_map }, si::TokenName { token: w.k.feeds[r.below(4)].0 }))),
        read_token_map_entry("token_decimals", |w, _s, _a, r| Ok(store_ix(sa::ReadTokenMap { token_map: w.k.token_map }, si::TokenDecimals { token: w.k.feeds[r.below(4)].0 }))),
        read_token_map_entry("token_precision", |w, _s, _a, r| Ok(store_ix(sa::ReadTokenMap { token_map: w.k.token_map }, si::TokenPrecision { token: w.k.feeds[r.below(4)].0 }))),
        // ---------------------------------------------------------------- oracle
        e!("initialize_oracle", Permissionless, |w, s, _a, _r| {
            let oracle = other("oracle-new");
            let space = 8 + std::mem::size_of::<gmsol_store::states::Oracle>();
            run_as(w, "create oracle", system_instruction::create_account(&s, &oracle, rent(space), space as u64, &PID))?;
            Ok(w.k.ix_initialize_oracle(s, s, oracle))
        }),
        e!("clear_all_prices", Role(OC), |w, s, _a, _r| {
            // "must have the ORACLE_CONTROLLER role ... must also be the authority of the oracle"
            let oracle = new_oracle(w, s)?;
            Ok(w.k.ix_clear_all_prices(s, oracle))
        }),
        e!("set_prices_from_price_feed", Role(OC), |w, s, _a, r| {
            let oracle = new_oracle(w, s)?;
            let n = 1 + r.below(4);
            let tokens: Vec<Pubkey> = w.k.feeds[..n].iter().map(|f| f.0).collect();
            let feeds: Vec<Pubkey> = w.k.feeds[..n].iter().map(|f| f.2).collect();
            Ok(w.k.ix_set_prices_from_price_feed(s, oracle, tokens, &feeds))
        }),
        e!("initialize_price_feed", Role(PK), |w, s, _a, r| Ok(w.k.ix_initialize_price_feed(s, r.below(3) as u16, 0, w.k.feeds[r.below(4)].0, other("feed-id")))),
        // ---------------------------------------------------------------- markets
        e!("initialize_market", Role(MK), |w, s, _a, r| {
            let (i, l, sh) = [(w.k.index_a, w.k.short_mint, w.k.short_mint), (w.k.index_b, w.k.long_mint, w.k.long_mint), (w.k.index_a, w.k.short_mint, w.k.long_mint)][r.below(3)];
            Ok(w.k.ix_initialize_market(s, i, l, sh, "NEW/USD", r.bool()))
        }),
        e!("toggle_market", Role(MK), |w, s, _a, r| Ok(w.k.ix_toggle_market(s, w.k.markets[r.below(3)].market, r.bool()))),
        e!("toggle_gt_minting", Role(MK), |w, s, _a, r| Ok(w.k.ix_toggle_gt_minting(s, w.k.markets[r.below(3)].market, r.bool()))),
        e!("market_transfer_in", Role(MK), |w, s, _a, r| {
            let from = other("from-token-account");
            let holder = fund(w, other("token-holder"));
            let long = r.bool();
            let mint = if long { w.k.long_mint } else { w.k.short_mint };
            create_token_account(&mut w.vm, w.k.admin, from, mint, holder, w.k.admin, 1_000_000).map_err(|e| format!("c19 prep: token account {e:?}"))?;
            Ok(w.k.ix_market_transfer_in(s, holder, w.k.markets[r.below(2)].market, from, mint, r.below(1_000_001) as u64))
        }),
        e!("update_market_config", AnyOf(&[MK, MCK]), |w, s, _a, r| {
            // MARKET_CONFIG_KEEPER may update the keys marked updatable: mark the key first
            let key = a_key(r);
            run_as(w, "set_market_config_updatable", w.k.ix_set_market_config_updatable(w.k.role_key(MK), false, &key, true))?;
            Ok(w.k.ix_update_market_config(s, w.k.markets[r.below(3)].market, &key, r.u128()))
        }),
        e!("update_market_config_flag", AnyOf(&[MK, MCK]), |w, s, _a, r| {
            let flags: Vec<_> = gmsol_store::states::market::config::MarketConfigFlag::iter().collect();
            let flag = flags[r.below(flags.len())].to_string();
            run_as(w, "set_market_config_updatable", w.k.ix_set_market_config_updatable(w.k.role_key(MK), true, &flag, true))?;
            Ok(w.k.ix_update_market_config_flag(s, w.k.markets[r.below(3)].market, &flag, r.bool()))
        }),
        e!("update_market_config_with_buffer", AnyOf(&[MK, MCK]), |w, s, _a, r| {
            let key = a_key(r);
            run_as(w, "set_market_config_updatable", w.k.ix_set_market_config_updatable(w.k.role_key(MK), false, &key, true))?;
            let buffer = new_buffer(w, s, &key)?;
            Ok(w.k.ix_update_market_config_with_buffer(s, w.k.markets[r.below(3)].market, buffer))
        }),
        e!("get_market_status", Permissionless, |w, _s, _a, r| {
            let p = |v: u128| gmsol_model::price::Price { min: v, max: v };
            let prices = gmsol_model::price::Prices { index_token_price: p(1_000_000_000_000), long_token_price: p(1_000_000_000_000), short_token_price: p(100_000_000_000_000) };
            Ok(store_ix(sa::ReadMarket { market: w.k.markets[r.below(3)].market }, si::GetMarketStatus { prices, maximize_pnl: r.bool(), maximize_pool_value: r.bool() }))
        }),
        e!("get_market_token_price", Permissionless, |w, _s, _a, r| {
            let p = |v: u128| gmsol_model::price::Price { min: v, max: v };
            let prices = gmsol_model::price::Prices { index_token_price: p(1_000_000_000_000), long_token_price: p(1_000_000_000_000), short_token_price: p(100_000_000_000_000) };
            let m = w.k.markets[r.below(3)];
            Ok(store_ix(sa::ReadMarketWithToken { market: m.market, market_token: m.market_token }, si::GetMarketTokenPrice { prices, pnl_factor: "max_after_deposit".into(), maximize: r.bool() }))
        }),
        e!("initialize_market_config_buffer", Permissionless, |w, s, _a, r| Ok(w.k.ix_initialize_market_config_buffer(s, other("buffer-new"), 1 + r.below(10_000) as u32))),
        e!("set_market_config_buffer_authority", Key(vec![core(CoreError::PermissionDenied)]), |w, s, a, r| {
            // "must be a signer and the current owner of the buffer account"
            let owner = owner_or_other(w, s, a);
            let buffer = new_buffer(w, owner, &a_key(r))?;
            Ok(w.k.ix_set_market_config_buffer_authority(s, buffer, other("new-buffer-authority")))
        }),
        e!("close_market_config_buffer", Key(vec![core(CoreError::PermissionDenied)]), |w, s, a, r| {
            let owner = owner_or_other(w, s, a);
            let buffer = new_buffer(w, owner, &a_key(r))?;
            Ok(w.k.ix_close_market_config_buffer(s, buffer, s))
        }),
        e!("push_to_market_config_buffer", Key(vec![core(CoreError::PermissionDenied)]), |w, s, a, r| {
            let owner = owner_or_other(w, s, a);
            let buffer = new_buffer(w, owner, &a_key(r))?;
            Ok(w.k.ix_push_to_market_config_buffer(s, buffer, vec![(a_key(r), r.u128()), (a_key(r), r.u128())]))
        }),
        e!("set_market_config_updatable", Role(MK), |w, s, _a, r| Ok(w.k.ix_set_market_config_updatable(s, false, &a_key(r), true))),
        e!("claim_fees_from_market", Key(vec![core(CoreError::PermissionDenied)]), |w, s, a, r| {
            // "must be a signer and be the designated fee receiver in the given store"
            if a {
                run_as(w, "transfer_receiver", w.k.ix_transfer_receiver(w.k.receiver, s))?;
                run_as(w, "accept_receiver", w.k.ix_accept_receiver(s))?;
            }
            let target = other("fee-target");
            let long = r.bool();
            let mint = if long { w.k.long_mint } else { w.k.short_mint };
            create_token_account(&mut w.vm, w.k.admin, target, mint, s, w.k.admin, 0).map_err(|e| format!("c19 prep: token account {e:?}"))?;
            Ok(w.k.ix_claim_fees_from_market(s, w.k.markets[r.below(2)].market, mint, target))
        }),
        e!("initialize_market_vault", Role(MK), |w, s, _a, r| {
            if r.bool() {
                let mint = other("vault-mint");
                create_mint(&mut w.vm, w.k.admin, mint, w.k.admin, 6).map_err(|e| format!("c19 prep: mint {e:?}"))?;
                Ok(w.k.ix_initialize_market_vault(s, mint))
            } else {
                Ok(w.k.ix_initialize_market_vault(s, w.k.long_mint))
            }
        }),
        e!("use_claimable_account", Role(OK_), |w, s, _a, r| {
            let owner = other("claimable-owner");
            let ts = svm::sysvars().unix_timestamp;
            let tk = w.store().claimable_time_key(ts).map_err(|e| e.to_string())?;
            let account = w.k.claimable_pda(&w.k.long_mint, &owner, &tk);
            Ok(w.k.ix_use_claimable_account(s, w.k.long_mint, owner, account, ts, r.below(1000) as u64))
        }),
        e!("close_empty_claimable_account", Role(OK_), |w, s, _a, r| {
            let owner = other("claimable-owner");
            let ts = svm::sysvars().unix_timestamp;
            let tk = w.store().claimable_time_key(ts).map_err(|e| e.to_string())?;
            let account = w.k.claimable_pda(&w.k.long_mint, &owner, &tk);
            if r.bool() {
                run_as(w, "use_claimable_account", w.k.ix_use_claimable_account(w.k.role_key(OK_), w.k.long_mint, owner, account, ts, 0))?;
            }
            Ok(w.k.ix_close_empty_claimable_account(s, w.k.long_mint, owner, account, ts))
        }),
        e!("prepare_associated_token_account", Permissionless, |w, s, _a, r| Ok(w.k.ix_prepare_associated_token_account(s, other("ata-owner"), if r.bool() { w.k.long_mint } else { w.k.short_mint }))),
        e!("create_token_metadata", Role(MK), |w, s, _a, r| Ok(w.k.ix_create_token_metadata(s, w.k.markets[r.below(3)].market_token, other("metadata")))),
        e!("update_token_metadata", Role(MK), |w, s, _a, _r| Ok(w.k.ix_update_token_metadata(s, other("metadata")))),
        // ---------------------------------------------------------------- GT
        e!("initialize_gt", Role(MK), |w, s, _a, r| Ok(w.k.ix_initialize_gt(s, 7, 1 + r.u128() / 4, world1::USD + r.below(1000) as u128, 1 + r.next() / 2, vec![5, 50, 500, 5000]))),
        e!("gt_set_order_fee_discount_factors", Role(MK), |w, s, _a, r| {
            ensure_gt(w)?;
            let mut f = vec![r.below(1001), r.below(1001), r.below(1001), r.below(1001)];
            f.sort();
            Ok(w.k.ix_gt_set_order_fee_discount_factors(s, f.into_iter().map(|x| x as u128 * world1::USD / 1000).collect()))
        }),
        e!("gt_set_referral_reward_factors", Role(GC), |w, s, _a, r| {
            ensure_gt(w)?;
            let mut f = vec![r.below(1001), r.below(1001), r.below(1001), r.below(1001)];
            f.sort();
            Ok(w.k.ix_gt_set_referral_reward_factors(s, f.into_iter().map(|x| x as u128 * world1::USD / 1000).collect()))
        }),
        // a test-only instruction: the handler body itself answers `Unimplemented` in production builds
        e!("gt_set_exchange_time_window", Role(GC), Expect::HandlerErr(core(CoreError::Unimplemented)), |w, s, _a, r| {
            ensure_gt(w)?;
            Ok(w.k.ix_gt_set_exchange_time_window(s, 1 + r.below(100_000) as u32))
        }),
        e!("prepare_gt_exchange_vault", Permissionless, |w, s, _a, _r| {
            ensure_gt(w)?;
            let (idx, win) = gt_vault_now(w);
            Ok(w.k.ix_prepare_gt_exchange_vault(s, idx, win))
        }),
        e!("confirm_gt_exchange_vault_v2", Role(GC), |w, s, _a, r| {
            ensure_gt(w)?;
            let (idx, win) = gt_vault_now(w);
            run_as(w, "prepare_gt_exchange_vault", w.k.ix_prepare_gt_exchange_vault(w.k.admin, idx, win))?;
            advance(win as i64 + 1);
            Ok(w.k.ix_confirm_gt_exchange_vault_v2(s, w.k.gt_exchange_vault_pda(idx, win), r.u128() >> 40, if r.bool() { Some(r.u128() >> 64) } else { None }))
        }),
        e!("request_gt_exchange", Key(owner_codes()), |w, s, a, r| {
            // "user must be properly initialized and correspond to the owner"
            ensure_gt(w)?;
            let owner = owner_or_other(w, s, a);
            prepared(w, owner)?;
            run_as(w, "mint_gt_reward", w.k.ix_mint_gt_reward(w.k.role_key(GC), owner, 1_000_000))?;
            let (idx, win) = gt_vault_now(w);
            run_as(w, "prepare_gt_exchange_vault", w.k.ix_prepare_gt_exchange_vault(w.k.admin, idx, win))?;
            let vault = w.k.gt_exchange_vault_pda(idx, win);
            let mut ix = w.k.ix_request_gt_exchange(s, vault, 1 + r.below(1_000_000) as u64);
            ix.accounts[2].pubkey = w.k.user_pda(&owner);
            Ok(ix)
        }),
        e!("close_gt_exchange", Role(GC), |w, s, _a, _r| {
            ensure_gt(w)?;
            let owner = w.k.users[0];
            run_as(w, "mint_gt_reward", w.k.ix_mint_gt_reward(w.k.role_key(GC), owner, 1_000_000))?;
            let (idx, win) = gt_vault_now(w);
            run_as(w, "prepare_gt_exchange_vault", w.k.ix_prepare_gt_exchange_vault(w.k.admin, idx, win))?;
            let vault = w.k.gt_exchange_vault_pda(idx, win);
            run_as(w, "request_gt_exchange", w.k.ix_request_gt_exchange(owner, vault, 500_000))?;
            advance(win as i64 + 1);
            run_as(w, "confirm_gt_exchange_vault_v2", w.k.ix_confirm_gt_exchange_vault_v2(w.k.role_key(GC), vault, 0, None))?;
            Ok(w.k.ix_close_gt_exchange(s, owner, vault))
        }),
        e!("update_gt_cumulative_inv_cost_factor", Role(GC), |w, s, _a, _r| {
            ensure_gt(w)?;
            advance(100);
            Ok(w.k.ix_update_gt_cumulative_inv_cost_factor(s))
        }),
        e!("mint_gt_reward", Role(GC), |w, s, _a, r| {
            ensure_gt(w)?;
            Ok(w.k.ix_mint_gt_reward(s, w.k.users[r.below(4)], r.below(1_000_000_000) as u64))
        }),
        // ---------------------------------------------------------------- users / referral (owner-only)
        e!("prepare_user", Key(vec![codes::CONSTRAINT_SEEDS]), |w, s, a, _r| {
            // acts on the signer's own account only: somebody else's account address is rejected
            let owner = owner_or_other(w, s, a);
            let mut ix = w.k.ix_prepare_user(s);
            ix.accounts[2].pubkey = w.k.user_pda(&owner);
            Ok(ix)
        }),
        e!("initialize_referral_code", Key(owner_codes()), |w, s, a, _r| {
            let owner = owner_or_other(w, s, a);
            prepared(w, owner)?;
            let mut ix = w.k.ix_initialize_referral_code(s, *b"c19code1");
            ix.accounts[3].pubkey = w.k.user_pda(&owner);
            Ok(ix)
        }),
        e!("set_referrer", Key(owner_codes()), |w, s, a, _r| {
            let owner = owner_or_other(w, s, a);
            prepared(w, owner)?;
            run_as(w, "initialize_referral_code", w.k.ix_initialize_referral_code(w.k.users[1], *b"c19code2"))?;
            let mut ix = w.k.ix_set_referrer(s, *b"c19code2", w.k.users[1]);
            ix.accounts[2].pubkey = w.k.user_pda(&owner);
            Ok(ix)
        }),
        e!("set_builder_fee_factor", Key(owner_codes()), |w, s, a, _r| {
            let owner = owner_or_other(w, s, a);
            prepared(w, owner)?;
            Ok(w.k.ix_set_builder_fee_factor(s, owner, 0))
        }),
        e!("transfer_referral_code", Key(owner_codes()), |w, s, a, _r| {
            let owner = owner_or_other(w, s, a);
            prepared(w, owner)?;
            run_as(w, "initialize_referral_code", w.k.ix_initialize_referral_code(owner, *b"c19code3"))?;
            Ok(w.k.ix_transfer_referral_code(s, owner, *b"c19code3", w.k.users[2]))
        }),
        e!("cancel_referral_code_transfer", Key(owner_codes()), |w, s, a, _r| {
            let owner = owner_or_other(w, s, a);
            prepared(w, owner)?;
            run_as(w, "initialize_referral_code", w.k.ix_initialize_referral_code(owner, *b"c19code4"))?;
            run_as(w, "transfer_referral_code", w.k.ix_transfer_referral_code(owner, owner, *b"c19code4", w.k.users[2]))?;
            Ok(w.k.ix_cancel_referral_code_transfer(s, owner, *b"c19code4"))
        }),
        e!("accept_referral_code", Key(vec![codes::CONSTRAINT_SEEDS, core(CoreError::OwnerMismatched), core(CoreError::PreconditionsAreNotMet)]), |w, s, a, _r| {
            // "referral_code must have the next owner be the next_owner (signer)"
            let next = owner_or_other(w, s, a);
            prepared(w, s)?;
            if next != s {
                prepared(w, next)?;
            }
            let owner = w.k.users[3];
            run_as(w, "initialize_referral_code", w.k.ix_initialize_referral_code(owner, *b"c19code5"))?;
            run_as(w, "transfer_referral_code", w.k.ix_transfer_referral_code(owner, owner, *b"c19code5", next))?;
            Ok(w.k.ix_accept_referral_code(s, owner, *b"c19code5", s))
        }),
        // ---------------------------------------------------------------- virtual inventories
        e!("create_virtual_inventory_for_swaps", Role(MK), |w, s, _a, r| Ok(w.k.ix_create_virtual_inventory_for_swaps(s, r.below(5) as u32, world1::LONG_DECIMALS, world1::SHORT_DECIMALS))),
        e!("join_virtual_inventory_for_swaps", Role(MK), |w, s, _a, r| {
            run_as(w, "create vi", w.k.ix_create_virtual_inventory_for_swaps(w.k.role_key(MK), 1, world1::LONG_DECIMALS, world1::SHORT_DECIMALS))?;
            Ok(w.k.ix_join_virtual_inventory_for_swaps(s, w.k.vi_for_swaps_pda(1), w.k.markets[r.below(2)].market))
        }),
        e!("leave_virtual_inventory_for_swaps", Role(MK), |w, s, _a, r| {
            let mk = w.k.role_key(MK);
            let m = w.k.markets[r.below(2)].market;
            run_as(w, "create vi", w.k.ix_create_virtual_inventory_for_swaps(mk, 1, world1::LONG_DECIMALS, world1::SHORT_DECIMALS))?;
            run_as(w, "join vi", w.k.ix_join_virtual_inventory_for_swaps(mk, w.k.vi_for_swaps_pda(1), m))?;
            Ok(w.k.ix_leave_virtual_inventory_for_swaps(s, w.k.vi_for_swaps_pda(1), m))
        }),
        e!("create_virtual_inventory_for_positions", Role(MK), |w, s, _a, r| Ok(w.k.ix_create_virtual_inventory_for_positions(s, [w.k.index_a, w.k.index_b][r.below(2)]))),
        e!("join_virtual_inventory_for_positions", Role(MK), |w, s, _a, r| {
            let m = w.k.markets[r.below(3)];
            run_as(w, "create vi", w.k.ix_create_virtual_inventory_for_positions(w.k.role_key(MK), m.index))?;
            Ok(w.k.ix_join_virtual_inventory_for_positions(s, w.k.vi_for_positions_pda(&m.index), m.market))
        }),
        e!("leave_virtual_inventory_for_positions", Role(MK), |w, s, _a, r| {
            let mk = w.k.role_key(MK);
            let m = w.k.markets[r.below(3)];
            run_as(w, "create vi", w.k.ix_create_virtual_inventory_for_positions(mk, m.index))?;
            run_as(w, "join vi", w.k.ix_join_virtual_inventory_for_positions(mk, w.k.vi_for_positions_pda(&m.index), m.market))?;
            Ok(w.k.ix_leave_virtual_inventory_for_positions(s, w.k.vi_for_positions_pda(&m.index), m.market))
        }),
        e!("disable_virtual_inventory", Role(MK), |w, s, _a, _r| {
            run_as(w, "create vi", w.k.ix_create_virtual_inventory_for_swaps(w.k.role_key(MK), 2, world1::LONG_DECIMALS, world1::SHORT_DECIMALS))?;
            Ok(w.k.ix_disable_virtual_inventory(s, w.k.vi_for_swaps_pda(2)))
        }),
        e!("leave_disabled_virtual_inventory", Role(MK), |w, s, _a, r| {
            let mk = w.k.role_key(MK);
            let m = w.k.markets[r.below(2)].market;
            let vi = w.k.vi_for_swaps_pda(3);
            run_as(w, "create vi", w.k.ix_create_virtual_inventory_for_swaps(mk, 3, world1::LONG_DECIMALS, world1::SHORT_DECIMALS))?;
            run_as(w, "join vi", w.k.ix_join_virtual_inventory_for_swaps(mk, vi, m))?;
            run_as(w, "disable vi", w.k.ix_disable_virtual_inventory(mk, vi))?;
            Ok(w.k.ix_leave_disabled_virtual_inventory(s, vi, m))
        }),
        e!("close_virtual_inventory", Role(MK), |w, s, _a, _r| {
            run_as(w, "create vi", w.k.ix_create_virtual_inventory_for_swaps(w.k.role_key(MK), 4, world1::LONG_DECIMALS, world1::SHORT_DECIMALS))?;
            Ok(w.k.ix_close_virtual_inventory(s, w.k.vi_for_swaps_pda(4)))
        }),
        // ---------------------------------------------------------------- other
        // compiled without the `migration` feature: the handler body answers `Unimplemented`
        e!("migrate_referral_code", Role(MIG), Expect::HandlerErr(core(CoreError::Unimplemented)), |w, s, _a, _r| Ok(w.k.ix_migrate_referral_code(s))),
        e!("initialize_callback_authority", Permissionless, |w, s, _a, _r| Ok(w.k.ix_initialize_callback_authority(s))),
    ];
    t.extend(crate::props::c19x::table());
    t.extend(crate::props::c19s::table());
    t.extend(crate::props::c19y::table());
    t
}

#[derive(Debug, Clone, Serialize, Deserialize)]
pub struct Case {
    pub entry: u16,
    pub caller: u16,
    /// 0 = `caller` indexes all caller classes of the entry, 1 = only the authorised ones, 2 = only the unauthorised ones.
    pub among: u8,
    pub seed: u64,
}

fn is_denied(e: &ProgramError, auth: &Auth, restarted: bool) -> bool {
    let ProgramError::Custom(c) = e else { return false };
    match auth {
        // after a restart a non-member is answered PermissionDenied by the RESTART_ADMIN lookup
        Auth::Admin | Auth::AdminAfterRestart => *c == core(CoreError::NotAnAdmin) || (restarted && *c == core(CoreError::PermissionDenied)),
        // after a restart the store reports StoreOutdated for non restart-admins
        Auth::Role(_) | Auth::AnyOf(_) => *c == core(CoreError::PermissionDenied) || (restarted && *c == core(CoreError::StoreOutdated)),
        Auth::Key(codes) => codes.contains(c),
        Auth::Permissionless => false,
    }
}

fn is_permission_class(e: &ProgramError) -> bool {
    matches!(e, ProgramError::Custom(c) if *c == core(CoreError::NotAnAdmin) || *c == core(CoreError::PermissionDenied) || *c == core(CoreError::StoreOutdated))
}

fn check_with(table: &[Entry], kf1_open: bool, c: &Case, rec: &mut Rec) -> Result<(), String> {
    let e = &table[c.entry as usize % table.len()];
    let mut cs = callers(&e.auth);
    match c.among {
        1 => cs.retain(|x| x.1),
        2 if cs.iter().any(|x| !x.1) => cs.retain(|x| !x.1),
        _ => {}
    }
    let (caller, authorised) = cs[c.caller as usize % cs.len()];
    let mut world = World1::fresh()?;
    let w = &mut world;
    let mut rng = Rng(c.seed);
    let signer = match caller {
        Caller::StoreAuthority => w.k.admin,
        _ => fund(w, other("signer")),
    };
    if let Auth::Role(r) = &e.auth {
        if !ROLES.contains(r) {
            // roles of the satellite programs are not part of the W1 world: enable them first
            run_as(w, "enable role", w.k.ix_enable_role(w.k.admin, r))?;
        }
    }
    match (caller, &e.auth) {
        (Caller::WrongRole(r), _) => run_as(w, "grant wrong role", w.k.ix_grant_role(w.k.admin, signer, r))?,
        (Caller::Required(_), Auth::Role(r)) => run_as(w, "grant role", w.k.ix_grant_role(w.k.admin, signer, r))?,
        (Caller::Required(i), Auth::AnyOf(rs)) => run_as(w, "grant role", w.k.ix_grant_role(w.k.admin, signer, rs[i]))?,
        (Caller::Required(_), Auth::AdminAfterRestart) => run_as(w, "grant RESTART_ADMIN", w.k.ix_grant_role(w.k.admin, signer, RA))?,
        _ => {}
    }
    let ix = (e.build)(w, signer, authorised, &mut rng).map_err(|m| format!("{}::{}: {m}", e.program, e.name))?;
    if let (Caller::Required(_), Auth::Admin) = (caller, &e.auth) {
        // hand the store over to the fresh signer with the real two-step transfer
        run_as(w, "transfer_store_authority", w.k.ix_transfer_store_authority(w.k.admin, signer))?;
        run_as(w, "accept_store_authority", w.k.ix_accept_store_authority(signer))?;
    }
    let before = w.vm.accounts.clone();
    let r = w.process(&ix);
    let restarted = svm::sysvars().last_restart_slot != 0;
    // check_role / has_role are read-only queries; C19 says nothing about their answer. For an address that
    // is not in the member table at all they fail with PermissionDenied (the doc comment promises `false`):
    // both outcomes deny the role, so this is only classified (it was first raised as an alarm, see
    // DESIGN.md "false alarms"); the query still must not change any account.
    let kf1 = matches!(e.name, "check_role" | "has_role") && caller == Caller::NoRole && matches!(&r, Err(ProgramError::Custom(c)) if *c == core(CoreError::PermissionDenied));
    let out = if kf1 {
        rec.class("role_query_for_non_member_fails_closed");
        if w.vm.accounts != before {
            return Err(format!("{}::{}: failed query changed accounts", e.program, e.name));
        }
        Ok(())
    } else if authorised {
        match (&r, e.expect) {
            (Ok(()), Expect::Ok) => {
                rec.class(e.name);
                rec.class("authorised_ok");
                Ok(())
            }
            (Err(ProgramError::Custom(c)), Expect::HandlerErr(code)) if *c == code => {
                rec.class(e.name);
                rec.class("authorised_handler_err");
                if w.vm.accounts != before {
                    return Err(format!("{}::{}: failed instruction changed accounts", e.program, e.name));
                }
                Ok(())
            }
            (Err(err), _) if is_permission_class(err) || is_denied(err, &e.auth, restarted) => Err(format!("{}::{} rejected the authorised caller {caller:?} (policy {:?}) with the permission error {err:?}", e.program, e.name, e.auth)),
            (other, _) => Err(format!("{}::{}: the authorised variant ({caller:?}) did not pass: {other:?} (instruction not covered; generator defect)", e.program, e.name)),
        }
    } else {
        match &r {
            Ok(()) => Err(format!("{}::{} accepted caller {caller:?} although the policy requires {:?}", e.program, e.name, e.auth)),
            Err(err) => {
                if !is_denied(err, &e.auth, restarted) {
                    Err(format!("{}::{} rejected caller {caller:?} with {err:?}, which is not a permission-class error for policy {:?} (generator defect or check order)", e.program, e.name, e.auth))
                } else if w.vm.accounts != before {
                    Err(format!("{}::{}: rejected call by {caller:?} changed accounts", e.program, e.name))
                } else {
                    rec.class("unauthorised_rejected");
                    rec.class_if(matches!(caller, Caller::WrongRole(_)), "wrong_role_rejected");
                    rec.class_if(matches!(caller, Caller::StoreAuthority), "admin_without_role_rejected");
                    rec.nontrivial();
                    Ok(())
                }
            }
        }
    };
    svm::set_sysvars(Sysvars::default());
    out
}

/// Instruction names declared in the `#[program]` module of a lib.rs (the universe for the coverage report).
fn declared_instructions(program_dir: &str) -> Option<Vec<String>> {
    let root = std::env::var("VERIF_REPO").unwrap_or_else(|_| "/repo".to_string());
    let src = std::fs::read_to_string(format!("{root}/programs/{program_dir}/src/lib.rs")).ok()?;
    let mut out = vec![];
    let mut inside = false;
    for line in src.lines() {
        if line.starts_with("#[program]") {
            inside = true;
        } else if inside && line.starts_with('}') {
            break;
        } else if inside {
            if let Some(rest) = line.strip_prefix("    pub fn ") {
                let name: String = rest.chars().take_while(|c| c.is_alphanumeric() || *c == '_').collect();
                out.push(name);
            }
        }
    }
    Some(out)
}

pub fn run(ctx: &mut Ctx) {
    ctx.rule("policy table instruction -> required authority (ADMIN / named role / any-of / owner-or-designated-key / permissionless) written from the `# Errors` doc comments and #[access_control] attributes; table pass = every (instruction, caller class) pair once: fresh signer with no role, with each single other role, the store authority itself for role-gated instructions, and the authorised caller (holder of the required role, each role of an any-of, the store authority, a signer that received the store authority through the real two-step transfer, the owner / receiver / next authority), plus state-dependent variants of the two-step hand-overs (store receiver, store authority, liquidity-provider authority) started from the *pending* state, where the proposed holder must still be rejected, the current holder still accepted, and the current holder cannot accept for the proposed one; random pass = the same pairs with random argument draws; every instruction is built with well-formed accounts in a fresh W1 world (prerequisite state created with real instructions by the world's own keepers); oracle: lacking authority => Err with the permission-class code of the policy (NotAnAdmin, PermissionDenied, StoreOutdated after a restart, has_one / seeds / owner codes for owner-only instructions) AND the whole account map byte-identical; holding it => Ok (or the documented handler-body error for the two test-only/migration stubs), so an instruction counts as covered only when its authorised variant ran the handler; non-trivial = an unauthorised call that got as far as the permission check");
    ctx.assume("svm-lite is not the Solana runtime; signatures are flags; the Metaplex token-metadata program is a stub that accepts every CPI (only the access-control path of create/update_token_metadata is exercised); custom price feed contents of the worlds are synthesised through PriceFeed::update (hook); for update_price_feed_with_chainlink(_idempotent) the Chainlink verifier program is a stub that accepts every report (report decoding, feed ownership, role check and the feed update are real, the signature verification is not); the exchange, GLV, treasury-swap and staking entries (c19y) run in the seeded exchange world W2 into which the caller's identity is ported (same roles granted by the W2 admin, the W1 store authority becomes the W2 authority through the real two-step transfer); create_* instructions act on the signer's own accounts, their unauthorised variant is a signer naming somebody else's source token account (rejected by the token program: OwnerMismatch), close_* follow owner-or-ORDER_KEEPER-once-terminal; liquidity-provider::calculate_gt_reward is driven with the position id appended to the instruction data by hand (its accounts struct declares an argument the handler does not have)");
    let table = table();
    let kf1_open = true;
    // 1. every (entry, caller) pair once, deterministic
    let mut all = vec![];
    for (i, e) in table.iter().enumerate() {
        for j in 0..callers(&e.auth).len() {
            all.push(Case { entry: i as u16, caller: j as u16, among: 0, seed: 1 });
        }
    }
    if std::env::var("VERIF_C19_DEBUG").is_ok() {
        for c in &all {
            let mut rec = Rec::default();
            if let Err(m) = crate::engine::no_panic(|| check_with(&table, kf1_open, c, &mut rec)).and_then(|r| r) {
                crate::engine::out(&format!("DEBUG {c:?}: {m}"));
            }
        }
    }
    ctx.enumerate("table", all, |c, rec| check_with(&table, kf1_open, c, rec));
    // 2. random argument draws
    let n = ctx.cases(3_000, 150_000);
    ctx.search("random", n, || (any::<u16>(), any::<u16>(), prop_oneof![1 => Just(0u8), 2 => Just(1u8), 2 => Just(2u8)], any::<u64>()).prop_map(|(entry, caller, among, seed)| Case { entry, caller, among, seed }), |c, rec| check_with(&table, kf1_open, c, rec));

    // coverage report
    let mut covered: BTreeMap<&str, Vec<&str>> = BTreeMap::new();
    let mut not_passed: Vec<String> = vec![];
    for e in &table {
        if ctx.class_count(&format!("table:{}", e.name)) > 0 {
            covered.entry(e.program).or_default().push(e.name);
        } else {
            not_passed.push(format!("{}::{}", e.program, e.name));
        }
    }
    let mut uncovered: BTreeMap<String, Vec<String>> = BTreeMap::new();
    let mut totals = BTreeMap::new();
    for (program, dir) in [("store", "store"), ("timelock", "timelock"), ("treasury", "treasury"), ("competition", "competition"), ("liquidity-provider", "liquidity-provider")] {
        match declared_instructions(dir) {
            Some(names) => {
                let have: BTreeSet<&str> = covered.get(program).map(|v| v.iter().copied().collect()).unwrap_or_default();
                totals.insert(program, json!({"declared": names.len(), "covered": have.len()}));
                uncovered.insert(program.to_string(), names.into_iter().filter(|n| !have.contains(n.as_str())).collect());
            }
            None => {
                uncovered.insert(program.to_string(), vec!["<lib.rs not readable: set VERIF_REPO>".to_string()]);
            }
        }
    }
    ctx.extra("covered", json!(covered));
    ctx.extra("uncovered", json!(uncovered));
    ctx.extra("coverage_totals", json!(totals));
    ctx.extra("policy_table", json!(table.iter().map(|e| json!({"program": e.program, "instruction": e.name, "requires": format!("{:?}", e.auth)})).collect::<Vec<_>>()));
    if !not_passed.is_empty() {
        ctx.inconclusive(format!("authorised variant never passed for: {not_passed:?}"));
    }
    ctx.floor("table:unauthorised_rejected", 739);
    ctx.floor("table:wrong_role_rejected", 563);
    ctx.floor("table:admin_without_role_rejected", 86);
    ctx.floor("random:unauthorised_rejected", 790);
    ctx.floor("random:authorised_ok", 807);
}
