//! Conversion checks: C26 price decimals, C27 market openness, C43 SDK Decimal round trips.

use crate::engine::{no_panic, Ctx, Rec};
use crate::gens::*;
use crate::refmath::*;
use gmsol_utils::price::{
    convert_to_u128_storage,
    feed_price::PriceFeedPrice,
    market_status::{MarketStatus, MarketStatusFlagContainer},
    Decimal, PriceFlag, U192,
};
use num_bigint::BigInt;
use num_traits::{Signed, ToPrimitive, Zero};
use proptest::prelude::*;
use serde::{Deserialize, Serialize};

// ------------------------------------------------------------------------------------------ C26

#[derive(Debug, Clone, Serialize, Deserialize)]
pub struct PriceCase {
    pub price: u128,
    pub decimals: u8,
    pub token_decimals: u8,
    pub precision: u8,
    pub unit_price: u128,
    pub round_up: bool,
    pub storage_hi: u64,
    pub storage_decimals: u8,
}

fn price_case() -> impl Strategy<Value = PriceCase> {
    (
        prop_oneof![3 => u128_mix(), 3 => 1u128..=10u128.pow(24), 1 => 0u128..=100_000],
        0u8..=24,
        0u8..=24,
        0u8..=24,
        u128_mix(),
        any::<bool>(),
        prop_oneof![2 => Just(0u64), 1 => any::<u64>(), 1 => 0u64..=1000],
        0u8..=24,
    )
        .prop_map(|(price, decimals, token_decimals, precision, unit_price, round_up, storage_hi, storage_decimals)| PriceCase {
            price, decimals, token_decimals, precision, unit_price, round_up, storage_hi, storage_decimals,
        })
}

fn check_price(c: &PriceCase, rec: &mut Rec) -> Result<(), String> {
    let got = no_panic(|| Decimal::try_from_price(c.price, c.decimals, c.token_decimals, c.precision))
        .map_err(|p| format!("try_from_price panicked: {p}"))?;
    let args_ok = c.decimals <= 20 && c.token_decimals <= 20 && c.precision <= 20 && c.token_decimals + c.precision <= 20;
    if !args_ok {
        rec.class("bad_arguments");
        if got.is_ok() {
            return Err(format!("decimal settings beyond the supported maximum were accepted: {c:?}"));
        }
    } else {
        let m = 20 - c.token_decimals as u32 - c.precision as u32;
        // exact value = floor(price * 10^(20 - dec - tok) / 10^m)
        let e = 20i32 - c.decimals as i32 - c.token_decimals as i32 - m as i32;
        let exact: BigInt = if e >= 0 { b(c.price) * pow10(e as u32) } else { floor_div(&b(c.price), &pow10((-e) as u32)) };
        let truncated = e < 0 && !(b(c.price) % pow10((-e) as u32)).is_zero();
        rec.class_if(truncated, "non_zero_truncation");
        rec.nontrivial_if(truncated || exact > b(u32::MAX) - b(2u8));
        match got {
            Ok(d) => {
                rec.class("converted");
                if d.decimal_multiplier as u32 != m {
                    return Err(format!("decimal multiplier {} != 20 - token_decimals - precision = {m}", d.decimal_multiplier));
                }
                if b(d.value) != exact {
                    return Err(format!("value {} != exact truncated value {exact} for {c:?}", d.value));
                }
                // unit price never above the exact unit price, and within one precision step
                let unit_exact_num = b(c.price) * pow10(40 - c.decimals as u32 - c.token_decimals as u32); // scaled by 10^20
                let unit_got = b(d.to_unit_price()) * pow10(20);
                if unit_got > unit_exact_num {
                    return Err("converted unit price is above the exact price (rounded up)".into());
                }
                if &unit_exact_num - &unit_got >= pow10(m) * pow10(20) {
                    return Err("converted unit price is off by a full precision step or more".into());
                }
            }
            Err(_) => {
                rec.class("rejected");
                if exact <= b(u32::MAX) {
                    // an intermediate u128 overflow would also be a legitimate error, but it cannot
                    // happen when the final value fits 32 bits (see DESIGN.md C26)
                    return Err(format!("representable price rejected: exact value {exact} fits u32 ({c:?})"));
                }
            }
        }
    }
    // PriceFeedPrice::try_to_price / try_to_ref_price are the same conversion applied to min / max / price
    {
        let mut tc: gmsol_utils::token_config::TokenConfig = bytemuck::Zeroable::zeroed();
        tc.token_decimals = c.token_decimals;
        tc.precision = c.precision;
        let (lo, hi) = (c.price / 2, c.price.saturating_add(c.unit_price % 1_000_000));
        let feed = PriceFeedPrice::new(c.decimals, 0, c.price, lo, hi, 0);
        let conv = |x: u128| Decimal::try_from_price(x, c.decimals, c.token_decimals, c.precision).ok();
        let got_price = no_panic(|| feed.try_to_price(&tc)).map_err(|p| format!("try_to_price panicked: {p}"))?.ok();
        let want_price = match (conv(lo), conv(hi)) {
            (Some(a), Some(b2)) => Some((a, b2)),
            _ => None,
        };
        if got_price.map(|p| (p.min, p.max)) != want_price {
            return Err(format!("PriceFeedPrice::try_to_price != try_from_price of min / max for {c:?}"));
        }
        let got_ref = no_panic(|| feed.try_to_ref_price(&tc)).map_err(|p| format!("try_to_ref_price panicked: {p}"))?.ok();
        if got_ref != conv(c.price) {
            return Err(format!("PriceFeedPrice::try_to_ref_price != try_from_price of the price for {c:?}"));
        }
        rec.class_if(want_price.is_some(), "feed_price_converted");
    }
    // with_unit_price / to_unit_price
    let mult = (c.precision % 21) as u8;
    let base = Decimal { value: 0, decimal_multiplier: mult };
    let step = pow10(mult as u32);
    match base.with_unit_price(c.unit_price, c.round_up) {
        Some(d) => {
            let back = b(d.to_unit_price());
            let x = b(c.unit_price);
            if c.round_up {
                if back < x || &back - &x >= step {
                    return Err(format!("with_unit_price(round up) gives {back} for {x}"));
                }
            } else if back > x || &x - &back >= step {
                return Err(format!("with_unit_price(round down) gives {back} for {x}"));
            }
            if d.decimal_multiplier != mult {
                return Err("with_unit_price changed the multiplier".into());
            }
        }
        None => {
            let v = if c.round_up { ceil_div(&b(c.unit_price), &step) } else { floor_div(&b(c.unit_price), &step) };
            if v <= b(u32::MAX) {
                return Err(format!("with_unit_price rejected a representable price (value {v})"));
            }
        }
    }
    // convert_to_u128_storage
    let num = U192::from(c.price) + (U192::from(c.storage_hi) << 128);
    let big = b(c.price) + (b(c.storage_hi) << 128);
    let kmin = (0u32..=40).find(|k| floor_div(&big, &pow10(*k)) <= b(u128::MAX)).unwrap();
    match no_panic(|| convert_to_u128_storage(num, c.storage_decimals)).map_err(|p| format!("convert_to_u128_storage panicked: {p}"))? {
        Some((v, d)) => {
            if d > c.storage_decimals {
                return Err("storage decimals increased".into());
            }
            let k = (c.storage_decimals - d) as u32;
            if b(v) != floor_div(&big, &pow10(k)) {
                return Err(format!("storage value {v} != floor(num / 10^{k})"));
            }
            if k > kmin + 1 {
                return Err(format!("divided by 10^{k} although 10^{kmin} suffices"));
            }
            rec.class_if(k > 0, "storage_divided");
        }
        None => {
            if kmin + 1 <= c.storage_decimals as u32 {
                return Err(format!("storage conversion failed although dividing by 10^{kmin} fits and decimals = {}", c.storage_decimals));
            }
            rec.class("storage_rejected");
        }
    }
    Ok(())
}

#[derive(Debug, Clone, Serialize, Deserialize)]
pub struct PythCase {
    /// confidence interval of the Pyth price (for pyth_price_with_confidence_to_price)
    pub conf: u64,
    pub value: u64,
    pub exponent: i32,
    pub token_decimals: u8,
    pub precision: u8,
}

fn pyth_case() -> impl Strategy<Value = PythCase> {
    (
        u64_mix(),
        prop_oneof![6 => -20i32..=0, 3 => 1i32..=20, 1 => -40i32..=-21, 1 => 21i32..=40, 1 => Just(i32::MIN), 1 => Just(i32::MAX)],
        0u8..=22,
        0u8..=22,
        prop_oneof![2 => Just(0u64), 3 => 0u64..=1_000, 1 => any::<u64>()],
    )
        .prop_map(|(value, exponent, token_decimals, precision, conf)| PythCase { conf, value, exponent, token_decimals, precision })
        .boxed()
        .prop_union(
            // representable prices with a positive exponent (value * 10^(exponent + precision) must fit 32 bits)
            (1u64..=40_000, 1i32..=5, 0u8..=16, 0u8..=4, 0u64..=50)
                .prop_map(|(value, exponent, token_decimals, precision, conf)| PythCase { conf, value, exponent, token_decimals, precision })
                .boxed(),
        )
}

/// `pyth_price_value_to_decimal`: the provider price is `value * 10^exponent`; the result must be that
/// exact price truncated to the configured precision (same reference as `try_from_price`), or an error.
fn check_pyth(c: &PythCase, rec: &mut Rec) -> Result<(), String> {
    let mut tc: gmsol_utils::token_config::TokenConfig = bytemuck::Zeroable::zeroed();
    tc.token_decimals = c.token_decimals;
    tc.precision = c.precision;
    let got = no_panic(|| gmsol_utils::oracle::pyth_price_value_to_decimal(c.value, c.exponent, &tc)).map_err(|p| format!("pyth_price_value_to_decimal panicked: {p}"))?;
    let args_ok = c.token_decimals <= 20 && c.precision <= 20 && c.token_decimals + c.precision <= 20;
    // exact unit price scaled by 10^20: value * 10^(exponent + 20 - token_decimals); the stored value is that
    // divided by 10^m (floor), m = 20 - token_decimals - precision
    let m = 20i64 - c.token_decimals as i64 - c.precision as i64;
    let shift = c.exponent as i64 + 20 - c.token_decimals as i64 - m; // = exponent + precision
    let exact: Option<BigInt> = if !args_ok || c.exponent < -255 || c.exponent > 60 {
        None
    } else if shift >= 0 {
        Some(b(c.value as u128) * pow10(shift as u32))
    } else {
        Some(floor_div(&b(c.value as u128), &pow10((-shift) as u32)))
    };
    rec.class_if(c.exponent > 0, "positive_exponent");
    // price with confidence: Ok <=> price fits, price -+ conf do not leave u64 and both bounds convert;
    // the bounds are exactly the conversions of price - conf and price + conf
    {
        let with_conf = no_panic(|| gmsol_utils::oracle::pyth_price_with_confidence_to_price(c.value as i64, c.conf, c.exponent, &tc))
            .map_err(|p| format!("pyth_price_with_confidence_to_price panicked: {p}"))?;
        let lo = if (c.value as i64) >= 0 { (c.value as i64 as u64).checked_sub(c.conf) } else { None };
        let hi = if (c.value as i64) >= 0 { (c.value as i64 as u64).checked_add(c.conf) } else { None };
        let want = match (lo, hi) {
            (Some(lo), Some(hi)) => match (gmsol_utils::oracle::pyth_price_value_to_decimal(lo, c.exponent, &tc), gmsol_utils::oracle::pyth_price_value_to_decimal(hi, c.exponent, &tc)) {
                (Ok(a), Ok(b2)) => Some((a, b2)),
                _ => None,
            },
            _ => None,
        };
        match (with_conf, want) {
            (Ok(p), Some((a, b2))) => {
                if p.min != a || p.max != b2 {
                    return Err(format!("price with confidence: bounds ({:?}, {:?}) != conversions of price -+ confidence ({a:?}, {b2:?}) for {c:?}", p.min, p.max));
                }
                if p.min.to_unit_price() > p.max.to_unit_price() {
                    return Err(format!("price with confidence: min above max for {c:?}"));
                }
                rec.class("with_confidence_converted");
            }
            (Err(_), None) => rec.class("with_confidence_rejected"),
            (Ok(p), None) => return Err(format!("price with confidence accepted ({:?}, {:?}) although a bound is not representable: {c:?}", p.min, p.max)),
            (Err(_), Some(_)) => return Err(format!("price with confidence rejected although both bounds convert: {c:?}")),
        }
    }
    match got {
        Ok(d) => {
            rec.class("converted");
            let Some(exact) = exact else {
                return Err(format!("unsupported settings accepted: {c:?} -> {d:?}"));
            };
            if d.decimal_multiplier as i64 != m {
                return Err(format!("decimal multiplier {} != {m} for {c:?}", d.decimal_multiplier));
            }
            if b(d.value) != exact {
                return Err(format!("pyth price {} * 10^{} converted to value {} != exact truncated value {exact} ({c:?})", c.value, c.exponent, d.value));
            }
            rec.class_if(c.exponent > 0 && c.value != 0, "positive_exponent_converted");
            rec.nontrivial_if(c.exponent != 0 && c.value != 0);
        }
        Err(_) => {
            rec.class("rejected");
            if let Some(exact) = exact {
                // legitimate failures: the exact value does not fit 32 bits, decimals beyond the supported
                // maximum (|exponent| > 20 for non-positive exponents), or value * 10^exponent overflowing u64
                let overflow_u64 = c.exponent > 0 && (pow10(c.exponent as u32) > b(u64::MAX as u128) || b(c.value as u128) * pow10(c.exponent as u32) > b(u64::MAX as u128));
                if exact <= b(u32::MAX) && c.exponent >= -20 && !overflow_u64 {
                    return Err(format!("representable pyth price rejected: exact value {exact} ({c:?})"));
                }
            }
        }
    }
    Ok(())
}

pub fn run_c26(ctx: &mut Ctx) {
    ctx.rule("cases = price (u128 mixture, typical 1..1e24, small), price decimals / token decimals / precision 0..=24, a unit price with rounding flag, a 192-bit number with decimals; oracle (BigInt) = Ok(d) => d.value == floor(price*10^(20-dec-tok)/10^m), m = 20-tok-prec, never above the exact unit price and less than one step below; Err <=> an argument > 20, tok+prec > 20, or the exact value > u32::MAX; with_unit_price direction and one-step bound; convert_to_u128_storage == floor(num/10^k) with k at most one above the minimum; non-trivial = non-zero truncation or value next to u32::MAX");
    let n = ctx.cases(300_000, 15_000_000);
    ctx.search("decimal", n, price_case, check_price);
    ctx.floor("decimal:converted", 10_000);
    ctx.floor("decimal:non_zero_truncation", 5_000);
    ctx.floor("decimal:storage_divided", 5_000);
    ctx.rule("PriceFeedPrice::try_to_price / try_to_ref_price equal try_from_price of min, max and price; search `pyth`: pyth_price_with_confidence_to_price bounds equal the conversions of price -+ confidence (Ok exactly when both exist); pyth_price_value_to_decimal(value u64, exponent -40..=40 and i32 extremes, token decimals / precision 0..=22): Ok(d) => d.value == floor(value * 10^(exponent + precision)) with multiplier 20 - tok - prec; Err only for unsupported settings, |negative exponent| > 20, 10^exponent or value*10^exponent above u64, or an exact value above u32::MAX; never a panic (exponent i32::MIN used to overflow on negation: fixed in 1bbfe9b)");
    let n2 = ctx.cases(100_000, 5_000_000);
    ctx.search("pyth", n2, pyth_case, check_pyth);
    ctx.floor("pyth:converted", 5_000);
    ctx.floor("pyth:positive_exponent_converted", 1_000);
    ctx.floor("pyth:with_confidence_converted", 2_000);
    ctx.floor("decimal:feed_price_converted", 5_000);
}

// ------------------------------------------------------------------------------------------ C27

#[derive(Debug, Clone, Serialize, Deserialize)]
pub struct OpenCase {
    pub current: i64,
    pub ts: i64,
    pub diff: u32,
    pub secs: bool,
    pub tracking: bool,
    pub timeout: u32,
    pub status: u8,
    pub flags: u8,
    pub open_flag: bool,
}

fn ts_strategy() -> impl Strategy<Value = i64> {
    prop_oneof![
        3 => any::<i64>(),
        2 => (0i64..=4).prop_map(|d| i64::MIN + d),
        2 => (0i64..=4).prop_map(|d| i64::MAX - d),
        4 => 1_600_000_000i64..=1_900_000_000,
        1 => -10i64..=10,
    ]
}

fn open_case() -> impl Strategy<Value = OpenCase> {
    (
        ts_strategy(),
        prop_oneof![3 => Just(None), 1 => ts_strategy().prop_map(Some)],
        -3i64..=3,
        prop_oneof![3 => 0u32..=7200, 1 => any::<u32>(), 1 => (0u32..=3).prop_map(|d| u32::MAX - d), 1 => 999_999_990u32..=1_000_000_010,
                    // exact multiples of one second in nanoseconds (incl. 0) and their neighbours
                    2 => (0u32..=4, -1i64..=1).prop_map(|(k, o)| (k as i64 * 1_000_000_000 + o).clamp(0, u32::MAX as i64) as u32)],
        any::<bool>(),
        prop_oneof![3 => Just(true), 1 => Just(false)],
        prop_oneof![3 => 0u32..=7200, 1 => any::<u32>(), 1 => (0u32..=3).prop_map(|d| u32::MAX - d)],
        0u8..=8,
        0u8..64,
        prop_oneof![3 => Just(true), 1 => Just(false)],
    )
        .prop_map(|(current, ts_free, near, diff, secs, tracking, timeout, status, flags, open_flag)| {
            // either an independent report timestamp or one within a few seconds of `current - timeout`
            let ts = match ts_free {
                Some(t) => t,
                None => current.saturating_sub(timeout as i64).saturating_add(near).saturating_add(if secs { diff.min(10_000) as i64 } else { diff.div_ceil(1_000_000_000) as i64 }),
            };
            OpenCase { current, ts, diff, secs, tracking, timeout, status, flags, open_flag }
        })
}

fn check_open(c: &OpenCase, rec: &mut Rec) -> Result<(), String> {
    let mut p = PriceFeedPrice::new(8, c.ts, 100, 99, 101, c.diff);
    p.set_flag(PriceFlag::Open, c.open_flag);
    p.set_flag(PriceFlag::LastUpdateDiffEnabled, c.tracking);
    p.set_flag(PriceFlag::LastUpdateDiffSecs, c.secs);
    let status = MarketStatus::try_from(c.status).ok();
    if let Some(s) = status {
        p.set_market_status(s);
    }
    let flags = MarketStatusFlagContainer::from_value(c.flags);
    let got = no_panic(|| p.is_market_open(c.current, c.timeout, flags)).map_err(|e| format!("is_market_open panicked: {e}"))?;
    // policy: which statuses count as closed under the feed's flags
    let bit = |i: u8| c.flags & (1 << i) != 0;
    let closed_by_status = match status {
        None | Some(MarketStatus::Disabled) => false, // disabled / invalid: the status is not consulted
        Some(MarketStatus::Unknown) => !bit(0),
        Some(MarketStatus::PreMarket) => !bit(1),
        Some(MarketStatus::RegularHours) => bit(2),
        Some(MarketStatus::PostMarket) => !bit(3),
        Some(MarketStatus::Overnight) => !bit(4),
        Some(MarketStatus::Closed) => !bit(5),
        _ => false,
    };
    let fresh = if !c.tracking {
        true
    } else {
        let diff_secs: i128 = if c.secs { c.diff as i128 } else { (c.diff as i128 + 999_999_999) / 1_000_000_000 };
        let report_age = c.current as i128 - c.ts as i128;
        report_age <= c.timeout as i128 && report_age + diff_secs <= c.timeout as i128
    };
    let expected = !closed_by_status && c.open_flag && fresh;
    rec.class(if expected { "open" } else { "closed" });
    rec.class_if(closed_by_status, "closed_by_status");
    let age = c.current as i128 - c.ts as i128;
    let near_boundary = c.tracking && (age - c.timeout as i128).abs() <= 2 * c.timeout as i128 + 4;
    let saturating = age > i64::MAX as i128 || age < i64::MIN as i128;
    rec.class_if(saturating, "saturation_region");
    rec.nontrivial_if(near_boundary || saturating);
    if got != expected {
        return Err(format!("is_market_open = {got}, policy says {expected} for {c:?}"));
    }
    Ok(())
}

pub fn run_c27(ctx: &mut Ctx) {
    ctx.rule("cases = current and report timestamps over the full i64 range incl. +-4 of MIN/MAX and report timestamps constructed within a few seconds of current - timeout, last-update difference (seconds or nanoseconds, around 1e9 and u32::MAX), timeout, all 7 statuses plus invalid bytes, all 64 policy flag sets, open flag, tracking on/off; oracle = i128 predicate from the statement; non-trivial = tracking enabled with the report age within 2 timeouts of the boundary, or the i64 subtraction saturates");
    let n = ctx.cases(400_000, 40_000_000);
    ctx.search("openness", n, open_case, check_open);
    ctx.floor("openness:open", 20_000);
    ctx.floor("openness:closed_by_status", 20_000);
    ctx.floor("openness:saturation_region", 5_000);
}

// ------------------------------------------------------------------------------------------ C43

#[derive(Debug, Clone, Serialize, Deserialize)]
pub struct DecCase {
    pub u: u128,
    pub i: i128,
    pub a: u64,
    pub s: i64,
    pub decimals: u8,
}

fn dec_case() -> impl Strategy<Value = DecCase> {
    // the band between the largest 96-bit mantissa and the next power of ten (2^96 .. 10^29) is where the
    // "needs scaling" decision of the SDK flips; it is ~6e-11 of the u128 range, so it gets its own arms
    let band_u = || prop_oneof![
        1 => (MAX_REPR - 2)..=(MAX_REPR + 3),
        1 => (MAX_REPR + 1)..10u128.pow(29),
        1 => (10u128.pow(29) - 3)..=(10u128.pow(29) + 3),
        1 => (10u128.pow(28) - 3)..=(10u128.pow(28) + 3),
    ];
    let u = prop_oneof![6 => u128_mix(), 1 => band_u()];
    let i = prop_oneof![6 => i128_mix(), 1 => (band_u(), any::<bool>()).prop_map(|(m, neg)| if neg { -(m as i128) } else { m as i128 })];
    (u, i, u64_mix(), i64_mix(), prop_oneof![4 => 0u8..=28, 1 => 29u8..=50, 1 => Just(20u8), 1 => any::<u8>()])
        .prop_map(|(u, i, a, s, decimals)| DecCase { u, i, a, s, decimals })
}

const MAX_REPR: u128 = 0x0000_0000_FFFF_FFFF_FFFF_FFFF_FFFF_FFFF;

fn check_dec(c: &DecCase, rec: &mut Rec, kf_open: bool) -> Result<(), String> {
    use gmsol_sdk::utils::fixed::*;
    let d = c.decimals;
    // unsigned fixed
    let r = no_panic(|| unsigned_fixed_to_decimal(c.u, d));
    let fwd = match r {
        Ok(v) => v,
        Err(p) => {
            // KF-C43-1: values above 2^96 with decimals that leave a scale above 28 make the SDK panic
            if kf_open && c.u > MAX_REPR && d > 28 {
                rec.excluded("KF-C43-1");
                None
            } else {
                return Err(format!("unsigned_fixed_to_decimal({}, {d}) panicked: {p}", c.u));
            }
        }
    };
    if let Some(dec) = fwd {
        rec.class("unsigned_converted");
        if c.u <= MAX_REPR && d <= 28 {
            // exact forward conversion: must round-trip
            match no_panic(|| decimal_to_value(dec, d)).map_err(|p| format!("decimal_to_value panicked: {p}"))? {
                Ok(back) if back == c.u => rec.class("exact_round_trip"),
                other => return Err(format!("u128 {} with {d} decimals came back as {other:?}", c.u)),
            }
        } else {
            // lossy forward conversion: the Decimal must equal the value truncated to the digits it
            // kept (never silently rescaled): |dec*10^d - u| < 10^(dropped digits)
            let scale = dec.scale();
            let m = b(dec.mantissa());
            if scale > d as u32 {
                return Err("conversion increased the scale".into());
            }
            let approx = m * pow10(d as u32 - scale);
            let diff = b(c.u) - approx;
            if diff.is_negative() || diff >= pow10(d as u32 - scale) {
                return Err(format!("lossy conversion of {} ({d} decimals) is not a truncation: {dec}", c.u));
            }
            rec.class("lossy_truncated");
        }
    } else {
        rec.class("unsigned_rejected");
        if c.u <= MAX_REPR && d <= 28 {
            return Err(format!("representable value {} with {d} decimals was rejected", c.u));
        }
    }
    // the infallible 20-decimals wrappers: never panic, and give the value truncated to the kept digits
    {
        let dec = no_panic(|| unsigned_value_to_decimal(c.u)).map_err(|p| format!("unsigned_value_to_decimal({}) panicked: {p}", c.u))?;
        let scale = dec.scale();
        if scale > 20 {
            return Err(format!("unsigned_value_to_decimal({}) has scale {scale} > 20", c.u));
        }
        let diff = b(c.u) - b(dec.mantissa()) * pow10(20 - scale);
        if diff.is_negative() || diff >= pow10(20 - scale) {
            return Err(format!("unsigned_value_to_decimal({}) = {dec} is not a truncation of the value", c.u));
        }
        let sdec = no_panic(|| signed_value_to_decimal(c.i)).map_err(|p| format!("signed_value_to_decimal({}) panicked: {p}", c.i))?;
        let sscale = sdec.scale();
        if sscale > 20 {
            return Err(format!("signed_value_to_decimal({}) has scale {sscale} > 20", c.i));
        }
        let sdiff = b(c.i.unsigned_abs()) - b(sdec.mantissa().unsigned_abs()) * pow10(20 - sscale);
        if sdiff.is_negative() || sdiff >= pow10(20 - sscale) || (c.i < 0 && sdec.is_sign_positive() && !sdec.is_zero()) {
            return Err(format!("signed_value_to_decimal({}) = {sdec} is not a truncation of the value", c.i));
        }
        rec.class_if(c.u > MAX_REPR && c.u < 10u128.pow(29), "band_between_2_96_and_1e29");
    }
    // signed fixed
    match no_panic(|| signed_fixed_to_decimal(c.i, d)) {
        Ok(Some(dec)) => {
            if c.i.unsigned_abs() <= MAX_REPR && d <= 28 {
                match no_panic(|| decimal_to_signed_value(dec, d)).map_err(|p| format!("decimal_to_signed_value panicked: {p}"))? {
                    Ok(back) if back == c.i => {}
                    other => return Err(format!("i128 {} with {d} decimals came back as {other:?}", c.i)),
                }
                rec.class_if(c.i < 0, "negative_round_trip");
            }
        }
        Ok(None) => {
            if c.i.unsigned_abs() <= MAX_REPR && d <= 28 {
                return Err(format!("representable signed value {} rejected", c.i));
            }
        }
        Err(p) => {
            if kf_open && c.i.unsigned_abs() > MAX_REPR && d > 28 {
                rec.excluded("KF-C43-1");
            } else {
                return Err(format!("signed_fixed_to_decimal({}, {d}) panicked: {p}", c.i));
            }
        }
    }
    // amounts (u64 / i64): never panic; exact round trip when decimals <= 28
    let amt = no_panic(|| unsigned_amount_to_decimal(c.a, d)).map_err(|p| format!("unsigned_amount_to_decimal({}, {d}) panicked: {p}", c.a))?;
    if d <= 28 {
        match no_panic(|| decimal_to_amount(amt, d)).map_err(|p| format!("decimal_to_amount panicked: {p}"))? {
            Ok(back) if back == c.a => {}
            other => return Err(format!("u64 amount {} with {d} decimals came back as {other:?}", c.a)),
        }
    } else {
        // documented: digits beyond 28 decimals are dropped (exact-to-scale), never scaled up
        let m = b(amt.mantissa());
        let kept = floor_div(&b(c.a), &pow10((d - 28) as u32));
        if m != kept && !(amt.is_zero() && kept.is_zero()) {
            return Err(format!("amount {} with {d} decimals became {amt} (mantissa {m}, expected {kept})", c.a));
        }
        rec.class("amount_beyond_28_decimals");
    }
    let samt = no_panic(|| signed_amount_to_decimal(c.s, d)).map_err(|p| format!("signed_amount_to_decimal panicked: {p}"))?;
    if d <= 28 {
        match no_panic(|| decimal_to_signed_value(samt, d)).map_err(|p| format!("decimal_to_signed_value panicked: {p}"))? {
            Ok(back) if back == c.s as i128 => {}
            other => return Err(format!("i64 amount {} with {d} decimals came back as {other:?}", c.s)),
        }
    }
    // negative Decimals are not amounts/values
    if c.s < 0 && d <= 28 {
        if let Ok(Ok(v)) = no_panic(|| decimal_to_amount(samt, d)) {
            return Err(format!("negative decimal {samt} converted to the amount {v}"));
        }
    }
    rec.nontrivial_if(c.u > MAX_REPR || d > 28 || c.i < 0);
    Ok(())
}

pub fn run_c43(ctx: &mut Ctx) {
    ctx.rule("cases = u128 / i128 / u64 / i64 mixtures x decimals 0..=28 (4/7), 29..=50, 20 and arbitrary u8; oracle = values <= 2^96-1 with decimals <= 28 convert exactly and round-trip through decimal_to_value / decimal_to_signed_value / decimal_to_amount; larger values must become a pure truncation (0 <= u - dec*10^d < 10^dropped) or be rejected; amounts beyond 28 decimals drop exactly the extra digits; no call panics (incl. the infallible 20-decimals wrappers unsigned_value_to_decimal / signed_value_to_decimal, which must give a truncation; the band 2^96..1e29 where the SDK's scaling decision flips has its own generator arms); negative decimals are not amounts; non-trivial = value above 2^96, decimals above 28, or negative");
    let kf = ctx.finding_open("KF-C43-1");
    {
        let r = no_panic(|| gmsol_sdk::utils::fixed::unsigned_fixed_to_decimal(10u128.pow(30), 40));
        ctx.known_witness("KF-C43-1", r.is_err(), "unsigned_fixed_to_decimal(1e30, 40) panics inside Decimal::from_i128_with_scale (scale 37 > 28) instead of returning None");
    }
    let n = ctx.cases(300_000, 15_000_000);
    ctx.search("decimal_round_trip", n, dec_case, move |c, rec| check_dec(c, rec, kf));
    ctx.floor("decimal_round_trip:exact_round_trip", 10_000);
    ctx.floor("decimal_round_trip:lossy_truncated", 5_000);
    ctx.floor("decimal_round_trip:band_between_2_96_and_1e29", 5_000);
}
