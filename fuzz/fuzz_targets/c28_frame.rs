#![no_main]
//! C28: byte-level fuzzing of the Chainlink full-report framing and report decoding.
//! Oracle inside the target: no panic; on success the blob equals the slice described by the full
//! 256-bit ABI offset/length words; a decoded report converts without panicking and keeps the order.
use gmsol_chainlink_datastreams::{
    report::{decode, decode_compressed_full_report, decode_full_report},
    FromChainlinkReport,
};
use gmsol_utils::price::feed_price::PriceFeedPrice;
use libfuzzer_sys::fuzz_target;
use num_bigint::BigUint;
use num_traits::ToPrimitive;

fn abi_slice(payload: &[u8]) -> Option<&[u8]> {
    if payload.len() < 128 {
        return None;
    }
    let word = |at: usize| -> Option<BigUint> { Some(BigUint::from_bytes_be(payload.get(at..at.checked_add(32)?)?)) };
    let offset = word(96)?.to_usize()?;
    let len = word(offset)?.to_usize()?;
    let start = offset.checked_add(32)?;
    payload.get(start..start.checked_add(len)?)
}

fuzz_target!(|data: &[u8]| {
    if let Ok((_ctx, blob)) = decode_full_report(data) {
        match abi_slice(data) {
            Some(r) => assert!(r == blob, "blob differs from the ABI-described slice"),
            None => panic!("blob returned although the ABI words describe no slice"),
        }
    }
    // A snappy header may declare up to 4 GiB of output; the decoder allocates it up front. That is an
    // allocation-size question, not a decoding property: skip declared sizes above 1 MiB (on-chain the
    // 32 KiB heap makes such inputs fail long before).
    if snap::raw::decompress_len(data).map(|n| n <= 1 << 20).unwrap_or(true) {
        let _ = decode_compressed_full_report(data);
    }
    if let Ok(report) = decode(data) {
        if let Ok(p) = PriceFeedPrice::from_chainlink_report(&report) {
            assert!(p.min_price() <= p.price() && p.price() <= p.max_price(), "order not preserved");
            assert!(report.non_negative_price().is_some() && report.non_negative_bid().is_some() && report.non_negative_ask().is_some());
        }
    }
});
