#![no_main]
//! C01: byte-level, coverage-guided fuzzing of the u128 multiply-then-divide helpers (the U256 paths) and the
//! USD / market-token conversions against exact big-integer arithmetic.
use gmsol_model::num::MulDiv;
use gmsol_model::utils;
use libfuzzer_sys::fuzz_target;
use num_bigint::{BigInt, Sign};
use num_traits::{Signed, Zero};

fn b(x: u128) -> BigInt {
    BigInt::from(x)
}
fn floor_div(a: &BigInt, d: &BigInt) -> BigInt {
    // d > 0
    let (q, r) = (a / d, a % d);
    if r.sign() == Sign::Minus { q - 1 } else { q }
}
fn fits_u128(x: &BigInt) -> Option<u128> {
    u128::try_from(x.clone()).ok()
}
fn fits_i128(x: &BigInt) -> Option<i128> {
    i128::try_from(x.clone()).ok()
}
/// Operands of mixed magnitude: the selector picks how many low bytes of the 16 are kept.
fn operand(bytes: &[u8], sel: u8) -> u128 {
    let x = u128::from_le_bytes(bytes.try_into().unwrap());
    match sel % 6 {
        0 => x,
        1 => x >> 64,
        2 => x >> 100,
        3 => u128::MAX - (x >> 120),
        4 => (x >> 64) * 100_000_000_000_000_000_000u128.min(u128::MAX / ((x >> 64).max(1))),
        _ => x >> 1,
    }
}

fuzz_target!(|data: &[u8]| {
    if data.len() < 52 {
        return;
    }
    let a = operand(&data[0..16], data[48]);
    let n = operand(&data[16..32], data[49]);
    let d = operand(&data[32..48], data[50]);
    let exact = |num: BigInt, den: &BigInt, up: bool| -> Option<BigInt> {
        if den.is_zero() {
            return None;
        }
        Some(if up { -floor_div(&-num, den) } else { floor_div(&num, den) })
    };
    match data[51] % 6 {
        0 => {
            let want = exact(b(a) * b(n), &b(d), false).and_then(|x| fits_u128(&x));
            assert_eq!(a.checked_mul_div(&n, &d), want, "checked_mul_div({a}, {n}, {d})");
        }
        1 => {
            let want = exact(b(a) * b(n), &b(d), true).and_then(|x| fits_u128(&x));
            assert_eq!(a.checked_mul_div_ceil(&n, &d), want, "checked_mul_div_ceil({a}, {n}, {d})");
        }
        2 => {
            // signed numerator: magnitude rounds towards zero
            let sn = n as i128;
            let want = if d == 0 {
                None
            } else {
                // "magnitude must fit the signed type": None exactly when floor(a*|n|/d) > i128::MAX
                let mag = b(a) * BigInt::from(sn).abs() / b(d);
                fits_i128(&mag).map(|m| if sn < 0 { -m } else { m })
            };
            assert_eq!(a.checked_mul_div_with_signed_numerator(&sn, &d), want, "checked_mul_div_with_signed_numerator({a}, {sn}, {d})");
        }
        3 => {
            // usd -> market tokens (floor); supply = n, pool value = d, usd = a, divisor 10^11
            let divisor: u128 = 100_000_000_000;
            let want = if n == 0 && d == 0 {
                Some(a / divisor)
            } else if n == 0 {
                // first mint against a non-empty pool: (pool value + usd) / divisor; the sum itself must fit
                // (documented failure: "None if the computation cannot be done")
                fits_u128(&(b(d) + b(a))).map(|s| s / divisor)
            } else {
                exact(b(n) * b(a), &b(d), false).and_then(|x| fits_u128(&x))
            };
            let got = utils::usd_to_market_token_amount(a, d, n, divisor);
            assert_eq!(got, want, "usd_to_market_token_amount(usd {a}, pool {d}, supply {n})");
        }
        4 => {
            // market tokens -> usd (floor); amount = a, pool value = d, supply = n
            let want = if n == 0 { None } else { exact(b(d) * b(a), &b(n), false).and_then(|x| fits_u128(&x)) };
            let got = utils::market_token_amount_to_usd(&a, &d, &n);
            assert_eq!(got, want, "market_token_amount_to_usd(amount {a}, pool {d}, supply {n})");
        }
        _ => {
            // apply_factor: floor(value * factor / 10^20) for u128 with 20 decimals
            let unit: u128 = 100_000_000_000_000_000_000;
            let want = exact(b(a) * b(n), &b(unit), false).and_then(|x| fits_u128(&x));
            let got = utils::apply_factor::<u128, 20>(&a, &n);
            assert_eq!(got, want, "apply_factor({a}, {n})");
        }
    }
});
