#![no_main]
//! C26: byte-level fuzzing of price decimal conversion against exact big-integer arithmetic.
use gmsol_utils::price::Decimal;
use libfuzzer_sys::fuzz_target;
use num_bigint::BigInt;

fn pow10(n: u32) -> BigInt {
    BigInt::from(10u8).pow(n)
}

fuzz_target!(|data: &[u8]| {
    if data.len() < 19 {
        return;
    }
    let price = u128::from_le_bytes(data[0..16].try_into().unwrap());
    let (dec, tok, prec) = (data[16] % 25, data[17] % 25, data[18] % 25);
    let got = Decimal::try_from_price(price, dec, tok, prec);
    let args_ok = dec <= 20 && tok <= 20 && prec <= 20 && tok + prec <= 20;
    if !args_ok {
        assert!(got.is_err(), "unsupported decimals accepted");
        return;
    }
    let m = 20 - tok as u32 - prec as u32;
    let e = 20i32 - dec as i32 - tok as i32 - m as i32;
    let exact: BigInt = if e >= 0 { BigInt::from(price) * pow10(e as u32) } else { BigInt::from(price) / pow10((-e) as u32) };
    match got {
        Ok(d) => {
            assert_eq!(d.decimal_multiplier as u32, m);
            assert_eq!(BigInt::from(d.value), exact, "value is not the exact truncation");
        }
        Err(_) => assert!(exact > BigInt::from(u32::MAX), "representable price rejected"),
    }
});
