#![no_main]
//! C34: byte-level, coverage-guided fuzzing of the fixed-capacity map against a sorted reference map.
//! Input = stream of 3-byte operations (opcode, key index, value) on a 2-byte-key map of capacity 16
//! (small so that the capacity is reached within a short input) and on a 32-byte-key map of capacity 64.
use libfuzzer_sys::fuzz_target;
use std::collections::BTreeMap;

type Pair = (u8, u8);
fn pair_key(k: &Pair) -> [u8; 2] {
    [k.0, k.1]
}
type K32 = [u8; 32];
fn k32_key(k: &K32) -> [u8; 32] {
    *k
}
gmsol_utils::fixed_map!(Pair16, 2, Pair, pair_key, u8, 16, 0);
gmsol_utils::fixed_map!(Wide64, 32, K32, k32_key, u64, 64, 4);

macro_rules! drive {
    ($ty:ty, $cap:expr, $klen:expr, $vty:ty, $mk:expr, $tk:expr, $ops:expr) => {{
        let mut map = <$ty>::default();
        let mut model: BTreeMap<[u8; $klen], $vty> = BTreeMap::new();
        let universe = $cap + 3usize;
        for op in $ops.chunks_exact(3) {
            let key = $mk(op[1] as usize % universe);
            let kb = $tk(&key);
            let v = op[2] as $vty;
            // snapshot only when the reference map predicts a rejection
            let predicted_reject = op[0] % 6 < 2 && ((model.contains_key(&kb) && op[0] % 6 == 1) || (!model.contains_key(&kb) && model.len() >= $cap));
            let before = if predicted_reject { bytemuck::bytes_of(&map).to_vec() } else { Vec::new() };
            match op[0] % 6 {
                0 | 1 => {
                    let new_only = op[0] % 6 == 1;
                    let exists = model.contains_key(&kb);
                    let full = model.len() >= $cap;
                    let got = map.insert_with_options(&key, v, new_only);
                    if exists && new_only {
                        assert!(got.is_err(), "insert-new of an existing key succeeded");
                        assert_eq!(bytemuck::bytes_of(&map), &before[..], "rejected insert changed the map");
                    } else if exists {
                        let prev = model.insert(kb, v);
                        assert_eq!(got.ok(), Some(prev), "replace must return the previous value");
                    } else if full {
                        assert!(got.is_err(), "insert of a new key into a full map succeeded");
                        assert_eq!(bytemuck::bytes_of(&map), &before[..], "rejected insert changed the map");
                    } else {
                        assert_eq!(got.ok(), Some(None), "insert of a new key");
                        model.insert(kb, v);
                    }
                }
                2 => assert_eq!(map.get(&key).copied(), model.get(&kb).copied(), "get"),
                3 => match (map.get_mut(&key), model.get_mut(&kb)) {
                    (Some(a), Some(m)) => {
                        *a = v;
                        *m = v;
                    }
                    (None, None) => {}
                    _ => panic!("get_mut presence mismatch"),
                },
                4 => assert_eq!(map.remove(&key), model.remove(&kb), "remove"),
                _ => {
                    if op[2] == 0xff {
                        map.clear();
                        model.clear();
                    }
                }
            }
            assert_eq!(map.len(), model.len(), "len");
            if op[0] % 6 == 5 {
                assert!(map.entries().map(|(k, v)| (*k, *v)).eq(model.iter().map(|(k, v)| (*k, *v))), "entries differ from the sorted reference map");
            }
        }
        assert!(map.entries().map(|(k, v)| (*k, *v)).eq(model.iter().map(|(k, v)| (*k, *v))), "entries differ from the sorted reference map at the end");
    }};
}

fuzz_target!(|data: &[u8]| {
    if data.is_empty() {
        return;
    }
    let ops = &data[1..];
    if data[0] & 1 == 0 {
        drive!(Pair16, 16usize, 2, u8, |i: usize| ((i / 5) as u8, (i % 5) as u8), pair_key, ops);
    } else {
        drive!(Wide64, 64usize, 32, u64, |i: usize| { let mut k = [0u8; 32]; k[31 - (i % 32)] = (i as u8).wrapping_mul(37) | 1; k[0] = i as u8; k }, k32_key, ops);
    }
});
